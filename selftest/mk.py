#!/usr/bin/env python3
"""mk.py <name> <property> <expected-obligation-substring> <file-relative-to-repo> <old> <new>
Creates selftest/mutants/<name>.patch/.expect by replacing the first occurrence of <old> by <new>."""
import sys, subprocess, os, tempfile, shutil
name, prop, expect, rel, old, new = sys.argv[1:7]
src = open('/repo/' + rel).read()
if src.count(old) < 1:
    sys.exit("old text not found in " + rel)
d = tempfile.mkdtemp()
os.makedirs(os.path.join(d, 'a', os.path.dirname(rel)), exist_ok=True)
os.makedirs(os.path.join(d, 'b', os.path.dirname(rel)), exist_ok=True)
open(os.path.join(d, 'a', rel), 'w').write(src)
open(os.path.join(d, 'b', rel), 'w').write(src.replace(old, new, 1))
p = subprocess.run(['diff', '-u', 'a/' + rel, 'b/' + rel], cwd=d, capture_output=True, text=True)
shutil.rmtree(d)
open('/verif/selftest/mutants/%s.patch' % name, 'w').write(p.stdout)
open('/verif/selftest/mutants/%s.expect' % name, 'w').write(prop + '\n' + expect + '\n')
print("wrote", name)
