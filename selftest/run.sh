#!/bin/bash
# Must-fail corpus: every mutant patch must make the named property check report a violation whose
# failing obligation matches the expected substring.  Scratch copies live under /var/tmp and are removed.
# usage: selftest/run.sh [name-filter]
cd /verif || exit 2
filter="${1:-}"
fail=0; n=0
scratch_root=$(mktemp -d /var/tmp/kvc-selftest-XXXXXX)
trap 'rm -rf "$scratch_root"' EXIT
run_one() {
  local patch="$1"; local name; name=$(basename "$patch" .patch)
  local exp="selftest/mutants/$name.expect"
  local prop; prop=$(sed -n 1p "$exp"); local want; want=$(sed -n 2p "$exp")
  local dir="$scratch_root/$name"
  mkdir -p "$dir/repo" "$dir/verif"
  rsync -a --exclude .git /repo/ "$dir/repo/"
  if ! (cd "$dir/repo" && patch -p1 -s < "/verif/$patch"); then echo "SELFTEST $name: patch does not apply"; return 1; fi
  cp /verif/known_findings.json /verif/sweep_baseline.json "$dir/verif/" 2>/dev/null
  cp -r /verif/bounded "$dir/verif/" 2>/dev/null
  mkdir -p "$dir/verif/replay" && cp -r /verif/replay/templates "$dir/verif/replay/" 2>/dev/null
  out=$(/verif/bin/kvc check -property "$prop" -tier quick -repo "$dir/repo" -verif "$dir/verif" 2>&1); rc=$?
  obl=$(cat "$dir"/verif/replays/*.json 2>/dev/null | grep -o '"obligation": "[^"]*"' | tr '\n' ' ')
  rm -rf "$dir"
  if [ $rc -ne 1 ]; then echo "SELFTEST $name: MISSED (exit $rc) expected violation of $prop"; return 1; fi
  if ! echo "$obl" | grep -qF -- "$want"; then echo "SELFTEST $name: violation reported but not at expected obligation '$want': $obl"; return 1; fi
  echo "SELFTEST $name: caught ($prop: $want)"; return 0
}
export -f run_one; export scratch_root
list=$(ls selftest/mutants/*.patch | grep -- "$filter")
# run up to 4 at a time
echo "$list" | xargs -P 4 -I{} bash -c 'run_one {}' | sort > "$scratch_root/out.txt"
cat "$scratch_root/out.txt"
total=$(echo "$list" | wc -l); caught=$(grep -c ": caught" "$scratch_root/out.txt")
echo "selftest: $caught/$total mutants caught"
[ "$caught" -eq "$total" ]
