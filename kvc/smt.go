package main

// SMT-LIB emission helpers and the solver portfolio (z3 4.8.12, z3 5.1.0, cvc5 1.0.x raced per query).

import (
	"bytes"
	"context"
	"fmt"
	"os"
	"os/exec"
	"path/filepath"
	"strings"
	"sync"
	"sync/atomic"
	"time"
)

func app(f string, args ...string) string {
	if len(args) == 0 {
		return f
	}
	return "(" + f + " " + strings.Join(args, " ") + ")"
}

func sAnd(xs ...string) string {
	var ys []string
	for _, x := range xs {
		if x == "true" || x == "" {
			continue
		}
		if x == "false" {
			return "false"
		}
		ys = append(ys, x)
	}
	switch len(ys) {
	case 0:
		return "true"
	case 1:
		return ys[0]
	}
	return app("and", ys...)
}

func sOr(xs ...string) string {
	var ys []string
	for _, x := range xs {
		if x == "false" || x == "" {
			continue
		}
		if x == "true" {
			return "true"
		}
		ys = append(ys, x)
	}
	switch len(ys) {
	case 0:
		return "false"
	case 1:
		return ys[0]
	}
	return app("or", ys...)
}

func sNot(x string) string {
	switch x {
	case "true":
		return "false"
	case "false":
		return "true"
	}
	if strings.HasPrefix(x, "(not ") && balanced(x[5:len(x)-1]) {
		return x[5 : len(x)-1]
	}
	return app("not", x)
}

func balanced(s string) bool {
	d := 0
	for i := 0; i < len(s); i++ {
		switch s[i] {
		case '(':
			d++
		case ')':
			d--
			if d < 0 {
				return false
			}
		}
	}
	return d == 0
}

func sImp(a, b string) string {
	if a == "true" {
		return b
	}
	if b == "true" || a == "false" {
		return "true"
	}
	return app("=>", a, b)
}

func sEq(a, b string) string {
	if a == b {
		return "true"
	}
	return app("=", a, b)
}

func sIte(c, a, b string) string {
	if c == "true" {
		return a
	}
	if c == "false" {
		return b
	}
	if a == b {
		return a
	}
	return app("ite", c, a, b)
}

func sInt(n int64) string {
	if n < 0 {
		return fmt.Sprintf("(- %d)", -n)
	}
	return fmt.Sprintf("%d", n)
}

// smtName makes an identifier safe for SMT-LIB (quoted symbol).
func smtName(s string) string {
	ok := true
	for _, c := range s {
		if !(c >= 'a' && c <= 'z' || c >= 'A' && c <= 'Z' || c >= '0' && c <= '9' || c == '_' || c == '$' || c == '.' || c == '!' || c == '#' || c == '@' || c == '~' || c == '^' || c == '%' || c == '&' || c == '*' || c == '+' || c == '-' || c == '/' || c == '<' || c == '>' || c == '=' || c == '?') {
			ok = false
			break
		}
	}
	if ok && len(s) > 0 && !(s[0] >= '0' && s[0] <= '9') {
		return s
	}
	s = strings.ReplaceAll(s, "|", "!")
	s = strings.ReplaceAll(s, "\\", "!")
	return "|" + s + "|"
}

// ---------------------------------------------------------------------------------------------

type SolverResult struct {
	Status  string // unsat | sat | unknown
	Solver  string
	Seconds float64
	Model   string
	Detail  string // per-solver outcomes
}

type solverDef struct {
	name string
	args func(file string, timeoutS int, seed int) []string
}

var solvers = []solverDef{
	{"z3-new", func(f string, t, seed int) []string {
		return []string{"z3-new", fmt.Sprintf("-T:%d", t), fmt.Sprintf("smt.random_seed=%d", seed), f}
	}},
	{"z3", func(f string, t, seed int) []string {
		return []string{"z3", fmt.Sprintf("-T:%d", t), fmt.Sprintf("smt.random_seed=%d", seed), f}
	}},
	{"cvc5", func(f string, t, seed int) []string {
		return []string{"cvc5", fmt.Sprintf("--tlimit=%d", t*1000), fmt.Sprintf("--seed=%d", seed), "--produce-models", f}
	}},
}

// second-stage configurations, tried only when the default portfolio is undecided: quantifier instantiation
// strategy matters more than time for the VCs with nested quantifiers (pure E-matching, enumerative instantiation)
var solvers2 = []solverDef{
	{"z3-new/nombqi", func(f string, t, seed int) []string {
		return []string{"z3-new", fmt.Sprintf("-T:%d", t), "smt.mbqi=false", fmt.Sprintf("smt.random_seed=%d", seed), f}
	}},
	{"z3-new/euf", func(f string, t, seed int) []string {
		return []string{"z3-new", fmt.Sprintf("-T:%d", t), "sat.euf=true", fmt.Sprintf("smt.random_seed=%d", seed), f}
	}},
	{"z3/nombqi", func(f string, t, seed int) []string {
		return []string{"z3", fmt.Sprintf("-T:%d", t), "smt.mbqi=false", fmt.Sprintf("smt.random_seed=%d", seed), f}
	}},
	{"cvc5/enum", func(f string, t, seed int) []string {
		return []string{"cvc5", fmt.Sprintf("--tlimit=%d", t*1000), fmt.Sprintf("--seed=%d", seed), "--produce-models", "--enum-inst", f}
	}},
	{"cvc5/nosimp", func(f string, t, seed int) []string {
		return []string{"cvc5", fmt.Sprintf("--tlimit=%d", t*1000), fmt.Sprintf("--seed=%d", seed), "--produce-models", "--simplification=none", f}
	}},
}

var (
	workDir     string
	queryCount  int64
	solverTimes sync.Map // solver name -> *solverStat
	solverSlots = make(chan struct{}, 14)
)

type solverStat struct {
	mu      sync.Mutex
	decided int
	seconds float64
}

func noteSolver(name string, secs float64) {
	v, _ := solverTimes.LoadOrStore(name, &solverStat{})
	s := v.(*solverStat)
	s.mu.Lock()
	s.decided++
	s.seconds += secs
	s.mu.Unlock()
}

func initWorkDir() {
	if workDir != "" {
		return
	}
	d, err := os.MkdirTemp("", "kvc-q-")
	if err != nil {
		panic(err)
	}
	workDir = d
}

func cleanupWorkDir() {
	if workDir != "" && os.Getenv("KVC_KEEP") == "" {
		os.RemoveAll(workDir)
	}
}

// runSolvers: default portfolio first (short limit), then the second-stage configurations with the full limit.
// runSolversFast: one stage, every configuration, short limit (joint and group attempts that may simply fail).
func runSolversFast(query string, timeoutS int, seed int, label string) SolverResult {
	all := append(append([]solverDef{}, solvers...), solvers2[0], solvers2[3])
	return runPortfolio(all, query, timeoutS, seed, label)
}

func runSolvers(query string, timeoutS int, seed int, label string) SolverResult {
	t1 := timeoutS
	if t1 > 4 {
		t1 = 4
	}
	// stage 1: the three defaults plus pure E-matching z3 and enumerative cvc5 (the two configurations that decide
	// most VCs with nested quantifiers)
	r := runPortfolio(append(append([]solverDef{}, solvers...), solvers2[0], solvers2[3]), query, t1, seed, label)
	if r.Status == "unsat" || r.Status == "sat" || r.Status == "inconsistent" {
		return r
	}
	if strings.Contains(r.Detail, ":error:") {
		return r
	}
	r2 := runPortfolio(append(append([]solverDef{}, solvers2...), solvers...), query, timeoutS, seed, label)
	r2.Detail = r.Detail + " | " + r2.Detail
	if os.Getenv("KVC_TRACE") != "" {
		fmt.Fprintf(os.Stderr, "TRACE stage2 %s %s %.1fs %s\n", r2.Status, r2.Solver, r2.Seconds, label)
	}
	return r2
}

func runPortfolio(solvers []solverDef, query string, timeoutS int, seed int, label string) SolverResult {
	initWorkDir()
	n := atomic.AddInt64(&queryCount, 1)
	file := filepath.Join(workDir, fmt.Sprintf("q%06d.smt2", n))
	if err := os.WriteFile(file, []byte(query), 0644); err != nil {
		panic(err)
	}
	if os.Getenv("KVC_KEEP") != "" {
		os.WriteFile(file+".label", []byte(label+"\n"), 0644)
	}
	ctx, cancel := context.WithCancel(context.Background())
	defer cancel()
	type one struct {
		name   string
		status string
		out    string
		secs   float64
	}
	ch := make(chan one, len(solvers))
	for _, s := range solvers {
		s := s
		go func() {
			solverSlots <- struct{}{}
			defer func() { <-solverSlots }()
			if ctx.Err() != nil {
				ch <- one{s.name, "cancelled", "", 0}
				return
			}
			args := s.args(file, timeoutS, seed)
			cctx, ccancel := context.WithTimeout(ctx, time.Duration(timeoutS+5)*time.Second)
			defer ccancel()
			cmd := exec.CommandContext(cctx, args[0], args[1:]...)
			var out bytes.Buffer
			cmd.Stdout = &out
			cmd.Stderr = &out
			t0 := time.Now()
			cmd.Run()
			secs := time.Since(t0).Seconds()
			txt := out.String()
			first := strings.TrimSpace(strings.SplitN(txt, "\n", 2)[0])
			st := "unknown"
			switch first {
			case "unsat":
				st = "unsat"
			case "sat":
				st = "sat"
			case "unknown", "timeout":
				st = "unknown"
			default:
				if ctx.Err() != nil {
					st = "cancelled"
				} else if strings.Contains(txt, "error") || strings.Contains(txt, "Error") {
					st = "error"
				}
			}
			ch <- one{s.name, st, txt, secs}
		}()
	}
	res := SolverResult{Status: "unknown"}
	var details []string
	got := 0
	for got < len(solvers) {
		o := <-ch
		got++
		if o.status != "cancelled" {
			d := fmt.Sprintf("%s:%s:%.2fs", o.name, o.status, o.secs)
			if o.status == "error" {
				e := o.out
				if len(e) > 300 {
					e = e[:300]
				}
				d += "[" + strings.ReplaceAll(e, "\n", " ") + "]"
			}
			details = append(details, d)
		}
		if o.status == "unsat" || o.status == "sat" {
			if res.Status == "unknown" {
				res.Status = o.status
				res.Solver = o.name
				res.Seconds = o.secs
				noteSolver(o.name, o.secs)
				if o.status == "sat" {
					if i := strings.Index(o.out, "\n"); i >= 0 {
						res.Model = o.out[i+1:]
					}
				}
				cancel()
			} else if res.Status != o.status {
				res.Status = "inconsistent"
			}
		}
	}
	res.Detail = strings.Join(details, " ")
	if os.Getenv("KVC_KEEP") == "" {
		os.Remove(file)
	}
	return res
}
