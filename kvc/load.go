package main

// Loading /repo (current working tree, -tags verif), building go/ssa in naive form, reading contracts.

import (
	"fmt"
	"go/token"
	"go/types"
	"os"
	"path/filepath"
	"sort"
	"strings"

	"golang.org/x/tools/go/packages"
	"golang.org/x/tools/go/ssa"
	"golang.org/x/tools/go/ssa/ssautil"
)

type Prog struct {
	fset     *token.FileSet
	pkgs     map[string]*packages.Package
	prog     *ssa.Program
	spkgs    map[string]*ssa.Package
	specs    map[string]*SpecFile       // by package path
	contracts map[*ssa.Function]*FuncContract
	funcs    map[string]*ssa.Function   // "pkgpath::key"
	ghosts   map[string]*GhostField     // "typeName.field"
	pures    map[string]*PureFunc       // name (package-local names are global here; must be unique)
	lemmas   []*Lemma
	guards   map[string]*GuardDecl      // "typeName.field"
	libs     map[string]*FuncContract   // library contracts by full name
	autoMods map[*ssa.Function]*ModSet
	allFuncs []*ssa.Function
	repoDir  string
	specAssumes []string
	loadSecs float64
	ifaceContracts map[string]*FuncContract
	lockMaps   map[string]bool
	sentinelOK map[*ssa.Global]bool
	sentinelText map[string]string
	stall    map[*ssa.Function]*stallInfo
	badLock  map[string]string
	lockReqs   map[*ssa.Function][]lockReq
	monotone   map[string]*GuardDecl // "typeName.field"
	anchorErrs []anchorErr
	fvTargets  map[string][]*ssa.Function
	rules      []*Rule
	ghostGlobals map[string]*GhostField
}

type anchorErr struct {
	fc  *FuncContract
	msg string
}

func relKey(fn *ssa.Function) string {
	if fn.Pkg == nil {
		if fn.Parent() != nil {
			return relKey(fn.Parent()) + "$?"
		}
		return fn.String()
	}
	return fn.RelString(fn.Pkg.Pkg)
}

func fnPkgPath(fn *ssa.Function) string {
	if fn.Pkg != nil {
		return fn.Pkg.Pkg.Path()
	}
	if fn.Parent() != nil {
		return fnPkgPath(fn.Parent())
	}
	if o := fn.Object(); o != nil && o.Pkg() != nil {
		return o.Pkg().Path()
	}
	if fn.Signature != nil && fn.Signature.Recv() != nil {
		t := fn.Signature.Recv().Type()
		if p, ok := t.(*types.Pointer); ok {
			t = p.Elem()
		}
		if n, ok := types.Unalias(t).(*types.Named); ok && n.Obj().Pkg() != nil {
			return n.Obj().Pkg().Path()
		}
	}
	return ""
}

func fullKey(fn *ssa.Function) string { return fnPkgPath(fn) + "::" + relKey(fn) }

func LoadProg(repoDir string, patterns []string) (*Prog, error) {
	cfg := &packages.Config{Mode: packages.LoadAllSyntax, Dir: repoDir, BuildFlags: []string{"-tags=verif"},
		Env: append(os.Environ(), "GOFLAGS=-mod=mod", "GOPROXY=off")}
	pkgs, err := packages.Load(cfg, patterns...)
	if err != nil {
		return nil, err
	}
	var errs []string
	packages.Visit(pkgs, nil, func(p *packages.Package) {
		if strings.HasPrefix(p.PkgPath, repoPrefix) {
			for _, e := range p.Errors {
				errs = append(errs, e.Error())
			}
		}
	})
	if len(errs) > 0 {
		return nil, fmt.Errorf("load errors: %s", strings.Join(errs, "; "))
	}
	p := &Prog{pkgs: map[string]*packages.Package{}, spkgs: map[string]*ssa.Package{}, specs: map[string]*SpecFile{},
		contracts: map[*ssa.Function]*FuncContract{}, funcs: map[string]*ssa.Function{}, ghosts: map[string]*GhostField{},
		pures: map[string]*PureFunc{}, guards: map[string]*GuardDecl{}, libs: map[string]*FuncContract{}, repoDir: repoDir,
		ifaceContracts: map[string]*FuncContract{}, lockMaps: map[string]bool{}}
	// Force pre-1.22 loop-variable semantics for the SSA builder so that a 3-clause loop has one cell per
	// variable (no pointer phis in naive form).  Functions in which a loop variable is captured by a closure
	// or has its address taken inside the loop are flagged outside the subset by checkLoopVarCapture.
	packages.Visit(pkgs, nil, func(pk *packages.Package) {
		if pk.TypesInfo != nil && strings.HasPrefix(pk.PkgPath, repoPrefix) {
			for f := range pk.TypesInfo.FileVersions {
				pk.TypesInfo.FileVersions[f] = "go1.21"
			}
		}
	})
	prog, spkgs := ssautil.AllPackages(pkgs, ssa.NaiveForm|ssa.GlobalDebug|ssa.InstantiateGenerics)
	prog.Build()
	p.prog = prog
	for i, pk := range pkgs {
		p.pkgs[pk.PkgPath] = pk
		if spkgs[i] != nil {
			p.spkgs[pk.PkgPath] = spkgs[i]
		}
		p.fset = pk.Fset
	}
	packages.Visit(pkgs, nil, func(pk *packages.Package) {
		if _, ok := p.pkgs[pk.PkgPath]; !ok {
			p.pkgs[pk.PkgPath] = pk
		}
	})
	for _, sp := range prog.AllPackages() {
		if _, ok := p.spkgs[sp.Pkg.Path()]; !ok {
			p.spkgs[sp.Pkg.Path()] = sp
		}
	}
	for fn := range ssautil.AllFunctions(prog) {
		pp := fnPkgPath(fn)
		if !strings.HasPrefix(pp, repoPrefix) {
			continue
		}
		if fn.Synthetic != "" && fn.Parent() == nil && !strings.Contains(fn.Synthetic, "instance") {
			continue
		}
		p.funcs[fullKey(fn)] = fn
		p.allFuncs = append(p.allFuncs, fn)
	}
	sort.Slice(p.allFuncs, func(i, j int) bool { return fullKey(p.allFuncs[i]) < fullKey(p.allFuncs[j]) })
	// contract files
	for path, pk := range p.pkgs {
		if !strings.HasPrefix(path, repoPrefix) || len(pk.GoFiles) == 0 {
			continue
		}
		dir := filepath.Dir(pk.GoFiles[0])
		cf := filepath.Join(dir, "contracts_verif.go")
		if _, err := os.Stat(cf); err != nil {
			continue
		}
		if err := checkCommentOnly(cf); err != nil {
			return nil, err
		}
		sf, err := ParseSpecFile(cf, path)
		if err != nil {
			return nil, err
		}
		p.specs[path] = sf
	}
	return p, p.indexSpecs()
}

// checkCommentOnly: a contract file must be guarded by the verif tag and contain nothing but a package clause and comments.
func checkCommentOnly(path string) error {
	data, err := os.ReadFile(path)
	if err != nil {
		return err
	}
	sawTag := false
	for i, l := range strings.Split(string(data), "\n") {
		t := strings.TrimSpace(l)
		switch {
		case t == "":
		case strings.HasPrefix(t, "//go:build"):
			if strings.TrimSpace(strings.TrimPrefix(t, "//go:build")) == "verif" {
				sawTag = true
			}
		case strings.HasPrefix(t, "//"):
		case strings.HasPrefix(t, "package "):
		default:
			return fmt.Errorf("%s:%d: contract file must be comment-only", path, i+1)
		}
	}
	if !sawTag {
		return fmt.Errorf("%s: missing //go:build verif", path)
	}
	return nil
}

func (p *Prog) loadLibSpecs(dir string) error {
	files, _ := filepath.Glob(filepath.Join(dir, "*.kvs"))
	sort.Strings(files)
	for _, f := range files {
		sf, err := ParseSpecFile(f, "")
		if err != nil {
			return err
		}
		for k, fc := range sf.Funcs {
			fc.Trusted = true
			p.libs[k] = fc
			if fc.BlocksWhy != "" {
				blockingIface[k] = fc.BlocksWhy
				blockingLib[k] = fc.BlocksWhy
			}
		}
		for _, g := range sf.Ghosts {
			p.ghosts[strings.TrimPrefix(strings.Trim(g.Recv, "()"), "*")+"."+g.Name] = g
		}
		for _, pf := range sf.Pures {
			p.pures[pf.Name] = pf
		}
		for _, g := range sf.Globals {
			if p.ghostGlobals == nil {
				p.ghostGlobals = map[string]*GhostField{}
			}
			p.ghostGlobals[g.Name] = g
		}
		p.lemmas = append(p.lemmas, sf.Lemmas...)
	}
	return nil
}

func (p *Prog) indexSpecs() error {
	var paths []string
	for path := range p.specs {
		paths = append(paths, path)
	}
	sort.Strings(paths)
	for _, path := range paths {
		sf := p.specs[path]
		pk := p.pkgs[path]
		pkgName := pk.Types.Name()
		qual := func(recv string) string {
			r := strings.TrimPrefix(strings.Trim(recv, "()"), "*")
			if !strings.Contains(r, ".") {
				r = typeNameByPkg(pk.Types, r)
			}
			return r
		}
		_ = pkgName
		for key, fc := range sf.Funcs {
			fn := p.funcs[path+"::"+key]
			if fn == nil {
				// interface method contract: Type.Method where Type is an interface of this package
				if i := strings.Index(key, "."); i > 0 && !strings.HasPrefix(key, "(") {
					if o := pk.Types.Scope().Lookup(key[:i]); o != nil {
						if _, isIface := o.Type().Underlying().(*types.Interface); isIface {
							p.ifaceContracts[typeName(o.Type())+"."+key[i+1:]] = fc
							continue
						}
						// contract of a named function type: T.call (applies to every call through a value of static type T)
						if _, isSig := o.Type().Underlying().(*types.Signature); isSig && key[i+1:] == "call" {
							p.ifaceContracts[typeName(o.Type())+".call"] = fc
							continue
						}
					}
				}
				// the function a contract is anchored to no longer exists: reported as a violation of every property
				// the contract carries a clause for (the assurance is lost), not as a load failure
				p.anchorErrs = append(p.anchorErrs, anchorErr{fc, fmt.Sprintf("%s:%d: contract target %q not found in package %s (anchor lost)", fc.File, fc.Line, key, path)})
				continue
			}
			p.contracts[fn] = fc
		}
		for _, g := range sf.Ghosts {
			p.ghosts[qual(g.Recv)+"."+g.Name] = g
		}
		for _, pf := range sf.Pures {
			if old, dup := p.pures[pf.Name]; dup && old.Pkg != pf.Pkg {
				return fmt.Errorf("pure function %s declared in two packages", pf.Name)
			}
			p.pures[pf.Name] = pf
		}
		for _, g := range sf.Guards {
			p.guards[qual(g.Recv)+"."+g.Field] = g
		}
		for _, g := range sf.Monotone {
			if p.monotone == nil {
				p.monotone = map[string]*GuardDecl{}
			}
			p.monotone[qual(g.Recv)+"."+g.Field] = g
		}
		for _, g := range sf.Globals {
			if p.ghostGlobals == nil {
				p.ghostGlobals = map[string]*GhostField{}
			}
			p.ghostGlobals[g.Name] = g
		}
		p.lemmas = append(p.lemmas, sf.Lemmas...)
		p.rules = append(p.rules, sf.Rules...)
		p.specAssumes = append(p.specAssumes, sf.Assumes...)
	}
	return nil
}

func typeNameByPkg(pkg *types.Package, name string) string {
	if o := pkg.Scope().Lookup(name); o != nil {
		if tn, ok := o.(*types.TypeName); ok {
			return typeName(tn.Type())
		}
	}
	return pkg.Name() + "." + name
}
