package main

// Zero-annotation sweep (C07): every repository function of the listed packages that touches a mutex or a field
// with a sharing declaration is verified with lock obligations on, without needing a contract.  The claim is the
// set of obligations discharged on the unchanged tree; obligations that need a precondition nobody wrote are listed
// in /verif/sweep_baseline.json as unclaimed (never as proved) and are ignored when they fail again.

import (
	"encoding/json"
	"os"
	"sort"
	"strings"

	"golang.org/x/tools/go/ssa"
)

type sweepBaseline map[string]map[string]string // property -> obligation id -> reason

func loadSweepBaseline(path string) sweepBaseline {
	out := sweepBaseline{}
	data, err := os.ReadFile(path)
	if err != nil {
		return out
	}
	json.Unmarshal(data, &out)
	return out
}

func (p *Prog) sweepUnits(pkgs []string) []*ssa.Function {
	var out []*ssa.Function
	inPkg := func(fn *ssa.Function) bool {
		pp := fnPkgPath(fn)
		for _, s := range pkgs {
			if strings.HasSuffix(pp, s) {
				return true
			}
		}
		return false
	}
	for _, fn := range p.allFuncs {
		if !inPkg(fn) || len(fn.Blocks) == 0 {
			continue
		}
		if fc := p.contracts[fn]; fc != nil && (fc.Inline || fc.Trusted) {
			continue
		}
		touches := false
		for _, b := range fn.Blocks {
			for _, in := range b.Instrs {
				switch in := in.(type) {
				case *ssa.FieldAddr:
					root, path, ok := staticPath(in)
					if ok && len(path) >= 1 {
						if _, g := p.guards[typeName(root)+"."+path[0]]; g {
							touches = true
						}
					}
				case ssa.CallInstruction:
					if sc := in.Common().StaticCallee(); sc != nil {
						n := sc.String()
						if strings.HasPrefix(n, "(*sync.Mutex).") || strings.HasPrefix(n, "(*sync.RWMutex).") {
							touches = true
						}
					}
				}
			}
		}
		if touches {
			out = append(out, fn)
		}
	}
	sort.Slice(out, func(i, j int) bool { return fullKey(out[i]) < fullKey(out[j]) })
	return out
}
