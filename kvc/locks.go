package main

// Ghost lock state, guarded-by discipline, atomic cells, publication points.

import (
	"sort"
	"fmt"
	"go/token"
	"go/types"
	"strings"

	"golang.org/x/tools/go/ssa"
)

// Lock state of the current goroutine for a mutex location: 0 = not held, 1 = held shared, 2 = held exclusive.
func (vc *VC) lockOp(fr *Frame, n *Node, recv ssa.Value, op string, pos token.Pos) {
	lv := vc.lockMapOf(fr, n, recv)
	if lv == nil {
		vc.unsupported("%s: lock operation on unmodelled mutex location", fr.fn)
		return
	}
	vc.nilCheck(fr, n, lv, pos)
	st := vc.lockState(n.env, lv)
	lockName := lockDesc(lv)
	oblig := func(kind, f string) {
		if !vc.lockOn {
			return
		}
		vc.counters["lock/"+relKey(fr.fn)]++
		ob := vc.newObl(fmt.Sprintf("%s/lock/%s %s#%d", relKey(fr.fn), kind, lockName, vc.counters["lock/"+relKey(fr.fn)]), "lock", vc.lockTags, kind+" "+lockName, pos)
		vc.assertAt(n, f, ob)
	}
	switch op {
	case "lock":
		oblig("no-reentry", sEq(st, "0"))
		vc.setLockState(n, lv, "2")
	case "rlock":
		oblig("no-reentry", sEq(st, "0"))
		vc.setLockState(n, lv, "1")
	case "unlock":
		oblig("unlock-held-W", sEq(st, "2"))
		vc.setLockState(n, lv, "0")
	case "runlock":
		oblig("runlock-held-R", sEq(st, "1"))
		vc.setLockState(n, lv, "0")
	}
	if fr.lockEvents != nil {
		*fr.lockEvents = append(*fr.lockEvents, op+" "+lockName)
	}
}

// Lock state is keyed by the mutex's address, so that a mutex reached through a stored pointer
// (tx.rwLock = &m.txLock) and through its owner (m.txLock) is one and the same lock.
func (vc *VC) lockAddr(lv *LVal) string {
	switch lv.kind {
	case lvHeap:
		// quantifier-free injective encoding: -(1024*ref + fieldId); object refs are positive, so field addresses
		// never collide with refs of separately allocated cells
		name := vc.heapMapName(lv.root, lv.path)
		id, ok := vc.ptrFieldIDs[name]
		if !ok {
			vc.ptrFieldSeq++
			id = vc.ptrFieldSeq
			vc.ptrFieldIDs[name] = id
		}
		return app("-", app("+", app("*", "1024", lv.ref), fmt.Sprint(id)))
	case lvCell:
		return lv.ref
	case lvLocal, lvGlobal:
		vc.declare("ptr$"+lv.sv, "Int")
		return smtName("ptr$" + lv.sv)
	}
	return "0"
}

func (vc *VC) lockVar() *SVar { return vc.svar("LockSt", "(Array Int Int)", nil) }

func (vc *VC) lockState(env Env, lv *LVal) string {
	return app("select", vc.cur(env, vc.lockVar().Name), vc.lockAddr(lv))
}

func (vc *VC) setLockState(n *Node, lv *LVal, v string) {
	vc.lockVar()
	old := vc.cur(n.env, "LockSt")
	nv := vc.bump(n.env, "LockSt")
	n.assume(sEq(nv, app("store", old, vc.lockAddr(lv), v)))
}

func lockDesc(lv *LVal) string {
	switch lv.kind {
	case lvHeap:
		return typeName(lv.root) + "." + strings.Join(lv.path, ".")
	case lvGlobal, lvLocal:
		return lv.sv
	}
	return "?"
}

func isLockType(t types.Type) bool {
	k := specialKind(t)
	return k == spMutex || k == spRWMutex
}

// guardCheck: plain access to a field with a sharing declaration.
func (vc *VC) guardCheck(fr *Frame, n *Node, lv *LVal, write bool, pos token.Pos) {
	if !vc.lockOn || lv.kind != lvHeap || len(lv.path) == 0 || lv.fresh || fr.allocFresh[lv.ref] {
		return
	}
	g, ok := vc.p.guards[typeName(lv.root)+"."+lv.path[0]]
	if !ok {
		return
	}
	vc.guardOblig(fr, n, g, lv, write, false, pos)
}

func (vc *VC) guardOblig(fr *Frame, n *Node, g *GuardDecl, lv *LVal, write, atomicOp bool, pos token.Pos) {
	root := vc.rootFrame(fr)
	vc.allocVar()
	freshObj := sNot(app("select", verName("alloc", root.entryEnv["alloc"]), lv.ref))
	var f, what string
	acc := "read"
	if write {
		acc = "write"
	}
	switch g.Mode {
	case "guarded":
		if atomicOp {
			return
		}
		st := lv.root.Underlying().(*types.Struct)
		idx := -1
		for i := 0; i < st.NumFields(); i++ {
			if st.Field(i).Name() == g.By {
				idx = i
			}
		}
		if idx < 0 {
			vc.specErrs = append(vc.specErrs, fmt.Sprintf("guarded %s.%s by %s: no such mutex field", typeName(lv.root), g.Field, g.By))
			return
		}
		mlv := vc.fieldOf(&LVal{kind: lvHeap, ref: lv.ref, root: lv.root, typ: lv.root}, lv.root, idx)
		state := vc.lockState(n.env, mlv)
		if write {
			f = sEq(state, "2")
		} else {
			f = app(">=", state, "1")
		}
		what = fmt.Sprintf("%s of %s.%s requires %s held", acc, typeName(lv.root), g.Field, g.By)
	case "atomic":
		if atomicOp {
			return
		}
		f = "false"
		what = fmt.Sprintf("plain %s of atomic field %s.%s", acc, typeName(lv.root), g.Field)
	case "immutable":
		if !write {
			return
		}
		f = "false"
		what = fmt.Sprintf("write to immutable field %s.%s after publication", typeName(lv.root), g.Field)
	default:
		return
	}
	f = sOr(freshObj, f)
	vc.counters["guard/"+relKey(fr.fn)]++
	ob := vc.newObl(fmt.Sprintf("%s/guard/%s.%s %s#%d", relKey(fr.fn), typeName(lv.root), g.Field, acc, vc.counters["guard/"+relKey(fr.fn)]), "guard", vc.lockTags, what, pos)
	vc.assertAt(n, f, ob)
}

func (vc *VC) rootFrame(fr *Frame) *Frame {
	for fr.parent != nil {
		fr = fr.parent
	}
	return fr
}

// guardCheckMap: access to the contents of a map held in a guarded field (the map value was loaded from the field).
func (vc *VC) guardCheckMap(fr *Frame, n *Node, m ssa.Value, write bool, pos token.Pos) {
	if !vc.lockOn {
		return
	}
	// find the field the map value was loaded from (directly, or through a local variable that holds a copy of the
	// map reference: the copy aliases the shared map, so its contents need the lock just the same)
	lv, g := vc.guardedMapSource(fr, m, 0, map[ssa.Value]bool{})
	if lv == nil {
		return
	}
	vc.guardOblig(fr, n, g, lv, write, false, pos)
}

func (vc *VC) guardedMapSource(fr *Frame, m ssa.Value, depth int, seen map[ssa.Value]bool) (*LVal, *GuardDecl) {
	if depth > 6 || seen[m] {
		return nil, nil
	}
	seen[m] = true
	switch u := m.(type) {
	case *ssa.UnOp:
		if u.Op != token.MUL {
			return nil, nil
		}
		if lv := fr.lvs[u.X]; lv != nil && lv.kind == lvHeap && len(lv.path) > 0 && !lv.fresh && !fr.allocFresh[lv.ref] {
			if g, ok := vc.p.guards[typeName(lv.root)+"."+lv.path[0]]; ok && g.Mode == "guarded" {
				return lv, g
			}
			return nil, nil
		}
		if a, ok := u.X.(*ssa.Alloc); ok && !a.Heap && a.Referrers() != nil {
			for _, r := range *a.Referrers() {
				if st, ok := r.(*ssa.Store); ok && st.Addr == ssa.Value(a) {
					if lv, g := vc.guardedMapSource(fr, st.Val, depth+1, seen); lv != nil {
						return lv, g
					}
				}
			}
		}
	case *ssa.Phi:
		for _, e := range u.Edges {
			if lv, g := vc.guardedMapSource(fr, e, depth+1, seen); lv != nil {
				return lv, g
			}
		}
	}
	return nil, nil
}

func (vc *VC) atomicAccess(fr *Frame, n *Node, lv *LVal, write bool, pos token.Pos) {
	vc.nilCheck(fr, n, lv, pos)
	if !vc.lockOn || lv.kind != lvHeap || len(lv.path) == 0 {
		return
	}
	if g, ok := vc.p.guards[typeName(lv.root)+"."+lv.path[0]]; ok {
		vc.guardOblig(fr, n, g, lv, write, true, pos)
	}
}

// publication: after an atomic store/CAS/swap, every-step invariants of the root function are asserted.
func (vc *VC) publication(fr *Frame, n *Node, pos token.Pos) {
	root := vc.rootFrame(fr)
	if root.fc == nil {
		return
	}
	j := 0
	for _, c := range root.fc.Clauses {
		if c.Kind != "assert" || c.Label != "atomic" {
			continue
		}
		j++
		sc := vc.specCtx(root, n, n.env)
		f, err := sc.formula(c.E)
		if err != nil {
			vc.specError(c, err)
			continue
		}
		vc.counters["pub/"+relKey(root.fn)]++
		ob := vc.newObl(fmt.Sprintf("%s/publication#%d/%d", relKey(root.fn), vc.counters["pub/"+relKey(root.fn)], j), "atomic-invariant", c.Tags, c.Text, pos)
		vc.assertAt(n, f, ob)
	}
}

// sentinel: package-level error variables are immutable, non-nil and pairwise distinct (assumption A-ERR;
// the absence of assignments outside initialisers is checked syntactically by checkSentinels).
func (vc *VC) sentinel(g *ssa.Global) (string, bool) {
	t := g.Type().(*types.Pointer).Elem()
	if !types.Identical(t, types.Universe.Lookup("error").Type()) {
		return "", false
	}
	if !vc.p.sentinelOK[g] {
		return "", false
	}
	name := "sentinel$" + g.Pkg.Pkg.Name() + "." + g.Name()
	if !vc.declared[name] {
		vc.declare(name, "Int")
		tag := vc.typeTagNamed("*errors.errorString")
		vc.declareFun("isptrtag_", []string{"Int"}, "Bool")
		vc.addAxiom(app("isptrtag_", fmt.Sprint(tag)))
		vc.allocVar()
		vc.addAxiom(app("<", "0", smtName(name)))
		vc.addAxiom(app("select", verName("alloc", 0), smtName(name)))
		for _, o := range vc.sentinels {
			vc.addAxiom(sNot(sEq(smtName(o), smtName(name))))
		}
		vc.sentinels = append(vc.sentinels, name)
		vc.addAxiom(sEq(app(vc.unwrapFn(), smtName(name)), "(mk-iface 0 0)"))
		vc.used["A-ERR: package-level error sentinels are immutable, non-nil and pairwise distinct"] = true
	}
	tag := vc.typeTagNamed("*errors.errorString")
	return app("mk-iface", fmt.Sprint(tag), smtName(name)), true
}

// computeSentinels: error-typed globals that are only stored in package initialisers.
func (p *Prog) computeSentinels() {
	p.sentinelOK = map[*ssa.Global]bool{}
	errT := types.Universe.Lookup("error").Type()
	for _, sp := range p.spkgs {
		// repository packages, plus the io package (io.EOF, io.ErrUnexpectedEOF, ...: immutable by convention)
		if !strings.HasPrefix(sp.Pkg.Path(), repoPrefix) && sp.Pkg.Path() != "io" {
			continue
		}
		for _, m := range sp.Members {
			if g, ok := m.(*ssa.Global); ok && types.Identical(g.Type().(*types.Pointer).Elem(), errT) {
				p.sentinelOK[g] = true
				if txt, ok := sentinelLiteral(sp, g); ok {
					if p.sentinelText == nil {
						p.sentinelText = map[string]string{}
					}
					p.sentinelText["sentinel$"+g.Pkg.Pkg.Name()+"."+g.Name()] = txt
				}
			}
		}
	}
	for _, fn := range p.allFuncs {
		if fn.Name() == "init" && fn.Parent() == nil {
			continue
		}
		for _, b := range fn.Blocks {
			for _, in := range b.Instrs {
				if st, ok := in.(*ssa.Store); ok {
					if g, ok := st.Addr.(*ssa.Global); ok {
						delete(p.sentinelOK, g)
					}
				}
			}
		}
	}
}

// sentinelLiteral: the message of `var E = errors.New("literal")`, read from the package initialiser.
func sentinelLiteral(sp *ssa.Package, g *ssa.Global) (string, bool) {
	init := sp.Func("init")
	if init == nil {
		return "", false
	}
	for _, b := range init.Blocks {
		for _, in := range b.Instrs {
			st, ok := in.(*ssa.Store)
			if !ok || st.Addr != g {
				continue
			}
			v := st.Val
			if mi, ok := v.(*ssa.MakeInterface); ok {
				v = mi.X
			}
			if c, ok := v.(*ssa.Call); ok {
				if f := c.Call.StaticCallee(); f != nil && f.Pkg != nil && f.Pkg.Pkg.Path() == "errors" && f.Name() == "New" && len(c.Call.Args) == 1 {
					return constString(c.Call.Args[0])
				}
			}
		}
	}
	return "", false
}

// errTextAxioms: the error-text model used by strings.Contains(err.Error(), "needle") classifications.
//   - a sentinel created by errors.New("literal") contains the needle iff the literal does (exact);
//   - fmt.Errorf(format, args...) contains the needle if a literal segment of the format does, or if an argument
//     printed with %w/%v/%s is an error whose text does (positive direction only: nothing is concluded from absence).
func (vc *VC) errTextAxioms() {
	var needles []string
	for name := range vc.declared {
		if strings.HasPrefix(name, "contains$") {
			needles = append(needles, strings.TrimPrefix(name, "contains$"))
		}
	}
	if len(needles) == 0 {
		return
	}
	sort.Strings(needles)
	vc.declareFun("errtext_", []string{"Iface"}, "Int")
	tag := vc.typeTagNamed("*errors.errorString")
	for _, nd := range needles {
		fn := smtName("contains$" + nd)
		for _, sname := range vc.sentinels {
			txt, ok := vc.p.sentinelText[sname]
			if !ok {
				continue
			}
			t := app(fn, app("errtext_", app("mk-iface", fmt.Sprint(tag), smtName(sname))))
			if strings.Contains(txt, nd) {
				vc.addAxiom(t)
			} else {
				vc.addAxiom(sNot(t))
			}
		}
		for _, ef := range vc.errFormats {
			t := app(fn, app("errtext_", ef.term))
			lit, verbs := splitFormat(ef.format)
			if strings.Contains(lit, nd) {
				vc.addAxiom(t)
				continue
			}
			for i, vb := range verbs {
				if (vb == 'w' || vb == 'v' || vb == 's') && i < len(ef.args) {
					vc.addAxiom(sImp(app(fn, app("errtext_", ef.args[i])), t))
				}
			}
		}
	}
	vc.used["error text model: errors.New literals exact; fmt.Errorf contains a needle if its format literal or a %w/%v/%s error argument does (positive direction only)"] = true
}

// ---- suffix model of strings: `suffix$L(s)` (s ends with the literal L) for the literals L that the code
// (strings.HasSuffix) or a contract (hassuffix) asks about.  Facts: literals exactly; fmt.Sprintf with a literal format
// from the text behind its last verb (or, when the format ends with %s, from that argument).
type sprintfRec struct {
	term   string
	format string
	args   []string
}

func (vc *VC) suffixTerm(lit, s string) string {
	fnm := "suffix$" + lit
	vc.declareFun(fnm, []string{"Int"}, "Bool")
	return app(smtName(fnm), s)
}

func (vc *VC) suffixAxioms() {
	var lits []string
	for name := range vc.declared {
		if strings.HasPrefix(name, "suffix$") {
			lits = append(lits, strings.TrimPrefix(name, "suffix$"))
		}
	}
	if len(lits) == 0 {
		return
	}
	sort.Strings(lits)
	for _, L := range lits {
		fn := smtName("suffix$" + L)
		if L != "" {
			vc.addAxiom(sNot(app(fn, "0")))
		}
		for _, str := range vc.strList {
			t := app(fn, vc.strConst(str))
			if strings.HasSuffix(str, L) {
				vc.addAxiom(t)
			} else {
				vc.addAxiom(sNot(t))
			}
		}
		for _, sp := range vc.sprintfs {
			lit, verbs := splitFormat(sp.format)
			tail := lit
			if i := strings.LastIndexByte(lit, 0); i >= 0 {
				tail = lit[i+1:]
			}
			t := app(fn, sp.term)
			switch {
			case len(tail) >= len(L):
				if strings.HasSuffix(tail, L) {
					vc.addAxiom(t)
				} else {
					vc.addAxiom(sNot(t))
				}
			case tail == "" && len(verbs) > 0 && verbs[len(verbs)-1] == 's' && len(verbs) == len(sp.args):
				vc.declareFun("unbox$Int", []string{"Int"}, "Int")
				vc.addAxiom(sEq(t, app(fn, app(smtName("unbox$Int"), app("i.val", sp.args[len(verbs)-1])))))
			case len(tail) > 0 && !strings.HasSuffix(L, tail):
				vc.addAxiom(sNot(t))
			}
		}
	}
	vc.used["string suffix model: literals exact; fmt.Sprintf decided by the literal text behind its last verb, or equal to its last %s argument when the format ends with it"] = true
}

// splitFormat: the literal text of a format string (verbs replaced by \x00) and the verb letters in order.
func splitFormat(format string) (string, []byte) {
	var lit []byte
	var verbs []byte
	for i := 0; i < len(format); i++ {
		if format[i] != '%' {
			lit = append(lit, format[i])
			continue
		}
		i++
		if i >= len(format) {
			break
		}
		if format[i] == '%' {
			lit = append(lit, '%')
			continue
		}
		for i < len(format) && strings.ContainsRune("+-# 0123456789.*[]", rune(format[i])) {
			i++
		}
		if i < len(format) {
			verbs = append(verbs, format[i])
		}
		lit = append(lit, 0)
	}
	return string(lit), verbs
}

// ---------------------------------------------------------------- inferred lock preconditions
//
// A function that acquires a mutex reachable from one of its parameters by a path of field
// dereferences requires that mutex not to be held by the caller (sync mutexes are not re-entrant).
// The requirement is inferred syntactically, propagated to callers that pass the object on, assumed at
// the entry of the callee and asserted at every static call site (obligation kind "lock").

type pathStep struct {
	st    types.Type // struct type
	field int
}

type lockReq struct {
	param int
	steps []pathStep // last step designates the mutex field
	why   string
}

func (r lockReq) key() string {
	s := fmt.Sprint(r.param)
	for _, st := range r.steps {
		s += "/" + typeName(st.st) + "." + fmt.Sprint(st.field)
	}
	return s
}

// paramPath resolves an SSA value to (parameter index, field path) if it is p.f1.f2...: loads of field
// addresses starting from the spill cell of a parameter.
func paramPath(fn *ssa.Function, v ssa.Value) (int, []pathStep, bool) {
	switch v := v.(type) {
	case *ssa.Parameter:
		for i, p := range fn.Params {
			if p == v {
				return i, nil, true
			}
		}
	case *ssa.UnOp:
		if v.Op != token.MUL {
			return 0, nil, false
		}
		switch x := v.X.(type) {
		case *ssa.Alloc:
			// spill cell of a parameter: exactly one store, of the parameter, and it must be the first instruction group
			var stored ssa.Value
			n := 0
			for _, r := range *x.Referrers() {
				if st, ok := r.(*ssa.Store); ok && st.Addr == x {
					stored = st.Val
					n++
				}
			}
			if n == 1 {
				if p, ok := stored.(*ssa.Parameter); ok {
					return paramPath(fn, p)
				}
			}
		case *ssa.FieldAddr:
			i, steps, ok := paramPath(fn, x.X)
			if !ok {
				return 0, nil, false
			}
			st := x.X.Type().Underlying().(*types.Pointer).Elem()
			return i, append(append([]pathStep{}, steps...), pathStep{st, x.Field}), true
		}
	case *ssa.FieldAddr:
		// address of a field (for the mutex itself, or a nested value struct)
		i, steps, ok := paramPath(fn, v.X)
		if !ok {
			return 0, nil, false
		}
		st := v.X.Type().Underlying().(*types.Pointer).Elem()
		return i, append(append([]pathStep{}, steps...), pathStep{st, v.Field}), true
	}
	return 0, nil, false
}

func (p *Prog) computeLockReqs() {
	p.lockReqs = map[*ssa.Function][]lockReq{}
	add := func(fn *ssa.Function, r lockReq) bool {
		for _, o := range p.lockReqs[fn] {
			if o.key() == r.key() {
				return false
			}
		}
		if len(r.steps) > 4 {
			return false
		}
		p.lockReqs[fn] = append(p.lockReqs[fn], r)
		return true
	}
	for _, fn := range p.allFuncs {
		for _, b := range fn.Blocks {
			for _, in := range b.Instrs {
				c, ok := in.(*ssa.Call)
				if !ok {
					continue
				}
				sc := c.Call.StaticCallee()
				if sc == nil {
					continue
				}
				switch sc.String() {
				case "(*sync.Mutex).Lock", "(*sync.RWMutex).Lock", "(*sync.RWMutex).RLock":
					if i, steps, ok := paramPath(fn, c.Call.Args[0]); ok && len(steps) > 0 {
						add(fn, lockReq{i, steps, "acquires it"})
					}
				}
			}
		}
	}
	changed := true
	for changed {
		changed = false
		for _, fn := range p.allFuncs {
			for _, b := range fn.Blocks {
				for _, in := range b.Instrs {
					c, ok := in.(*ssa.Call)
					if !ok {
						continue
					}
					sc := c.Call.StaticCallee()
					if sc == nil || !strings.HasPrefix(fnPkgPath(sc), repoPrefix) {
						continue
					}
					for _, r := range p.lockReqs[sc] {
						if r.param >= len(c.Call.Args) {
							continue
						}
						if i, steps, ok := paramPath(fn, c.Call.Args[r.param]); ok {
							nr := lockReq{i, append(append([]pathStep{}, steps...), r.steps...), "calls " + relKey(sc)}
							if add(fn, nr) {
								changed = true
							}
						}
					}
				}
			}
		}
	}
}

// lockReqState: the lock-state term designated by a requirement for the given argument term.
func (vc *VC) lockReqState(env Env, arg string, r lockReq) string {
	ref := arg
	for i, st := range r.steps {
		base := &LVal{kind: lvHeap, ref: ref, root: st.st, typ: st.st}
		lv := vc.fieldOf(base, st.st, st.field)
		if i == len(r.steps)-1 {
			return vc.lockState(env, lv)
		}
		if isAggregate(lv.typ) {
			// nested value struct: continue from the sub-object
			ref = lv.ref
			continue
		}
		ref = vc.load(env, lv)
	}
	return "0"
}

func (vc *VC) assumeLockReqs(fr *Frame, n *Node) {
	for _, r := range vc.p.lockReqs[fr.fn] {
		if r.param < len(fr.params) {
			n.assume(sEq(vc.lockReqState(n.env, fr.params[r.param], r), "0"))
		}
	}
}

func (vc *VC) assertLockReqs(fr *Frame, n *Node, callee *ssa.Function, args []string, pos token.Pos, ord int) {
	if !vc.lockOn {
		return
	}
	for _, r := range vc.p.lockReqs[callee] {
		if r.param >= len(args) {
			continue
		}
		last := r.steps[len(r.steps)-1]
		name := typeName(last.st) + "." + last.st.Underlying().(*types.Struct).Field(last.field).Name()
		ob := vc.newObl(fmt.Sprintf("%s/call %s#%d/lock-not-held %s", relKey(fr.fn), relKey(callee), ord, name), "lock", vc.lockTags,
			fmt.Sprintf("callee %s (%s) needs %s not held by the caller", relKey(callee), r.why, name), pos)
		vc.assertAt(n, sEq(vc.lockReqState(n.env, args[r.param], r), "0"), ob)
	}
}

func (p *Prog) computeLockMaps() {
	p.lockMaps = map[string]bool{"LockSt": true}
	p.computeLockReqs()
}

// monotoneCheck: a store to a field declared `monotone` must not decrease it (objects allocated by the
// storing function itself are exempt: initialisation).
func (vc *VC) monotoneCheck(fr *Frame, n *Node, lv *LVal, val string, pos token.Pos) {
	if lv.kind != lvHeap || len(lv.path) != 1 || vc.p.monotone == nil {
		return
	}
	g, ok := vc.p.monotone[typeName(lv.root)+"."+lv.path[0]]
	if !ok {
		return
	}
	if lv.fresh || fr.allocFresh[lv.ref] {
		return
	}
	root := vc.rootFrame(fr)
	vc.allocVar()
	freshObj := sNot(app("select", verName("alloc", root.entryEnv["alloc"]), lv.ref))
	vc.counters["mono/"+relKey(fr.fn)]++
	ob := vc.newObl(fmt.Sprintf("%s/monotone/%s.%s#%d", relKey(fr.fn), typeName(lv.root), g.Field, vc.counters["mono/"+relKey(fr.fn)]), "monotone", g.Tags,
		fmt.Sprintf("store to %s.%s must not decrease it", typeName(lv.root), g.Field), pos)
	vc.assertAt(n, sOr(freshObj, app(">=", val, vc.load(n.env, lv))), ob)
}

// storesToMonotone: functions that syntactically store to a monotone field tagged with prop.
func (p *Prog) storesToMonotone(prop string) []*ssa.Function {
	var out []*ssa.Function
	for _, fn := range p.allFuncs {
		found := false
		for _, b := range fn.Blocks {
			for _, in := range b.Instrs {
				st, ok := in.(*ssa.Store)
				if !ok {
					continue
				}
				fa, ok := st.Addr.(*ssa.FieldAddr)
				if !ok {
					continue
				}
				root, path, ok := staticPath(fa)
				if !ok || len(path) != 1 {
					continue
				}
				if g, ok := p.monotone[typeName(root)+"."+path[0]]; ok && hasTag(g.Tags, prop) {
					found = true
				}
			}
		}
		if found {
			out = append(out, fn)
		}
	}
	return out
}
