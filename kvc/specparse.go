package main

// Contract files and the contract expression language.
//
// Contracts are //@ comment lines in comment-only files `contracts_verif.go` (build tag verif) inside
// the packages of /repo, keyed by function (`func (*WAL).Append`), loop ordinal (`loop (*WAL).AppendBatch#1`)
// and call-site ordinal.  Library assumptions live in /verif/specs/*.kvs with the same syntax.

import (
	"fmt"
	"os"
	"strconv"
	"strings"
	"unicode"
)

// ---------------------------------------------------------------- expressions

type Expr interface{ String() string }

type (
	EIdent struct{ Name string }
	EInt   struct{ V string }
	EBool  struct{ V bool }
	EStr   struct{ V string }
	EBin   struct {
		Op   string
		L, R Expr
	}
	EUn struct {
		Op string
		X  Expr
	}
	ECall struct {
		Fun  string
		Recv Expr // method-style call x.f(args) (only for qualified names this is nil)
		Args []Expr
	}
	ESel struct {
		X    Expr
		Name string
	}
	EIdx struct {
		X, I Expr
	}
	ESlice struct {
		X, Lo, Hi Expr
	}
	EQuant struct {
		Forall bool
		Vars   []QVar
		Body   Expr
	}
)

type QVar struct {
	Name string
	Type string
}

func (e *EIdent) String() string { return e.Name }
func (e *EInt) String() string   { return e.V }
func (e *EBool) String() string  { return fmt.Sprint(e.V) }
func (e *EStr) String() string   { return strconv.Quote(e.V) }
func (e *EBin) String() string   { return "(" + e.L.String() + " " + e.Op + " " + e.R.String() + ")" }
func (e *EUn) String() string    { return e.Op + e.X.String() }
func (e *ECall) String() string {
	var as []string
	for _, a := range e.Args {
		as = append(as, a.String())
	}
	return e.Fun + "(" + strings.Join(as, ", ") + ")"
}
func (e *ESel) String() string { return e.X.String() + "." + e.Name }
func (e *EIdx) String() string { return e.X.String() + "[" + e.I.String() + "]" }
func (e *ESlice) String() string {
	lo, hi := "", ""
	if e.Lo != nil {
		lo = e.Lo.String()
	}
	if e.Hi != nil {
		hi = e.Hi.String()
	}
	return e.X.String() + "[" + lo + ":" + hi + "]"
}
func (e *EQuant) String() string {
	q := "exists"
	if e.Forall {
		q = "forall"
	}
	var vs []string
	for _, v := range e.Vars {
		vs = append(vs, v.Name+" "+v.Type)
	}
	return "(" + q + " " + strings.Join(vs, ", ") + " :: " + e.Body.String() + ")"
}

type stok struct {
	kind string // id int str op eof
	text string
	pos  int
}

type lexer struct {
	src  string
	toks []stok
	i    int
}

var ops3 = []string{"<==>", "==>", "::", "==", "!=", "<=", ">=", "&&", "||", "<<", ">>", "&^"}

func lex(src string) ([]stok, error) {
	var toks []stok
	i := 0
	for i < len(src) {
		c := src[i]
		if c == ' ' || c == '\t' || c == '\n' || c == '\r' {
			i++
			continue
		}
		if unicode.IsLetter(rune(c)) || c == '_' {
			j := i
			for j < len(src) && (unicode.IsLetter(rune(src[j])) || unicode.IsDigit(rune(src[j])) || src[j] == '_' || src[j] == '$') {
				j++
			}
			toks = append(toks, stok{"id", src[i:j], i})
			i = j
			continue
		}
		if c >= '0' && c <= '9' {
			j := i
			for j < len(src) && (src[j] >= '0' && src[j] <= '9' || src[j] == 'x' || src[j] == 'X' || src[j] == '_' || (src[j] >= 'a' && src[j] <= 'f') || (src[j] >= 'A' && src[j] <= 'F')) {
				j++
			}
			toks = append(toks, stok{"int", src[i:j], i})
			i = j
			continue
		}
		if c == '"' {
			j := i + 1
			for j < len(src) && src[j] != '"' {
				if src[j] == '\\' {
					j++
				}
				j++
			}
			if j >= len(src) {
				return nil, fmt.Errorf("unterminated string at %d", i)
			}
			s, err := strconv.Unquote(src[i : j+1])
			if err != nil {
				return nil, err
			}
			toks = append(toks, stok{"str", s, i})
			i = j + 1
			continue
		}
		matched := false
		for _, op := range ops3 {
			if strings.HasPrefix(src[i:], op) {
				toks = append(toks, stok{"op", op, i})
				i += len(op)
				matched = true
				break
			}
		}
		if matched {
			continue
		}
		if strings.ContainsRune("+-*/%<>!()[]{}.,:&|^?=", rune(c)) {
			toks = append(toks, stok{"op", string(c), i})
			i++
			continue
		}
		return nil, fmt.Errorf("unexpected character %q at %d in %q", c, i, src)
	}
	toks = append(toks, stok{"eof", "", len(src)})
	return toks, nil
}

type parser struct {
	toks []stok
	i    int
	src  string
}

func (p *parser) peek() stok { return p.toks[p.i] }
func (p *parser) next() stok  { t := p.toks[p.i]; p.i++; return t }
func (p *parser) isOp(s string) bool {
	t := p.peek()
	return t.kind == "op" && t.text == s
}
func (p *parser) isID(s string) bool {
	t := p.peek()
	return t.kind == "id" && t.text == s
}
func (p *parser) expectOp(s string) error {
	if !p.isOp(s) {
		return fmt.Errorf("expected %q at %d in %q (got %q)", s, p.peek().pos, p.src, p.peek().text)
	}
	p.i++
	return nil
}

func ParseExpr(src string) (Expr, error) {
	toks, err := lex(src)
	if err != nil {
		return nil, err
	}
	p := &parser{toks: toks, src: src}
	e, err := p.parseIff()
	if err != nil {
		return nil, err
	}
	if p.peek().kind != "eof" {
		return nil, fmt.Errorf("trailing input at %d in %q", p.peek().pos, src)
	}
	return e, nil
}

func (p *parser) parseIff() (Expr, error) {
	l, err := p.parseImp()
	if err != nil {
		return nil, err
	}
	for p.isOp("<==>") {
		p.next()
		r, err := p.parseImp()
		if err != nil {
			return nil, err
		}
		l = &EBin{"<==>", l, r}
	}
	return l, nil
}

func (p *parser) parseImp() (Expr, error) {
	l, err := p.parseBinLevel(0)
	if err != nil {
		return nil, err
	}
	if p.isOp("==>") {
		p.next()
		r, err := p.parseImp()
		if err != nil {
			return nil, err
		}
		return &EBin{"==>", l, r}, nil
	}
	return l, nil
}

var binLevels = [][]string{
	{"||"},
	{"&&"},
	{"==", "!=", "<", "<=", ">", ">="},
	{"+", "-", "|", "^"},
	{"*", "/", "%", "&", "<<", ">>", "&^"},
}

func (p *parser) parseBinLevel(lv int) (Expr, error) {
	if lv == len(binLevels) {
		return p.parseUnary()
	}
	l, err := p.parseBinLevel(lv + 1)
	if err != nil {
		return nil, err
	}
	for {
		t := p.peek()
		found := false
		if t.kind == "op" {
			for _, op := range binLevels[lv] {
				if t.text == op {
					found = true
				}
			}
		}
		if !found {
			return l, nil
		}
		p.next()
		r, err := p.parseBinLevel(lv + 1)
		if err != nil {
			return nil, err
		}
		l = &EBin{t.text, l, r}
	}
}

func (p *parser) parseUnary() (Expr, error) {
	if p.isOp("!") || p.isOp("-") {
		op := p.next().text
		x, err := p.parseUnary()
		if err != nil {
			return nil, err
		}
		return &EUn{op, x}, nil
	}
	return p.parsePostfix()
}

func (p *parser) parseTypeText(stop func() bool) string {
	var sb strings.Builder
	for !stop() && p.peek().kind != "eof" {
		sb.WriteString(p.next().text)
	}
	return sb.String()
}

func (p *parser) parsePrimary() (Expr, error) {
	t := p.next()
	switch t.kind {
	case "int":
		return &EInt{strings.ReplaceAll(t.text, "_", "")}, nil
	case "str":
		return &EStr{t.text}, nil
	case "id":
		switch t.text {
		case "true":
			return &EBool{true}, nil
		case "false":
			return &EBool{false}, nil
		case "forall", "exists":
			q := &EQuant{Forall: t.text == "forall"}
			for {
				n := p.next()
				if n.kind != "id" {
					return nil, fmt.Errorf("quantifier variable expected at %d in %q", n.pos, p.src)
				}
				ty := p.parseTypeText(func() bool { return p.isOp(",") || p.isOp("::") })
				q.Vars = append(q.Vars, QVar{n.text, ty})
				if p.isOp(",") {
					p.next()
					continue
				}
				break
			}
			if err := p.expectOp("::"); err != nil {
				return nil, err
			}
			b, err := p.parseIff()
			if err != nil {
				return nil, err
			}
			q.Body = b
			return q, nil
		}
		return &EIdent{t.text}, nil
	case "op":
		if t.text == "(" {
			e, err := p.parseIff()
			if err != nil {
				return nil, err
			}
			if err := p.expectOp(")"); err != nil {
				return nil, err
			}
			return e, nil
		}
	}
	return nil, fmt.Errorf("unexpected %q at %d in %q", t.text, t.pos, p.src)
}

func (p *parser) parsePostfix() (Expr, error) {
	e, err := p.parsePrimary()
	if err != nil {
		return nil, err
	}
	for {
		switch {
		case p.isOp("."):
			p.next()
			n := p.next()
			if n.kind != "id" {
				return nil, fmt.Errorf("field name expected at %d in %q", n.pos, p.src)
			}
			e = &ESel{e, n.text}
		case p.isOp("["):
			p.next()
			var lo, hi Expr
			if !p.isOp(":") {
				lo, err = p.parseIff()
				if err != nil {
					return nil, err
				}
			}
			if p.isOp(":") {
				p.next()
				if !p.isOp("]") {
					hi, err = p.parseIff()
					if err != nil {
						return nil, err
					}
				}
				if err := p.expectOp("]"); err != nil {
					return nil, err
				}
				e = &ESlice{e, lo, hi}
			} else {
				if err := p.expectOp("]"); err != nil {
					return nil, err
				}
				e = &EIdx{e, lo}
			}
		case p.isOp("("):
			p.next()
			var args []Expr
			for !p.isOp(")") {
				a, err := p.parseIff()
				if err != nil {
					return nil, err
				}
				args = append(args, a)
				if p.isOp(",") {
					p.next()
				} else {
					break
				}
			}
			if err := p.expectOp(")"); err != nil {
				return nil, err
			}
			switch f := e.(type) {
			case *EIdent:
				e = &ECall{Fun: f.Name, Args: args}
			case *ESel:
				if id, ok := f.X.(*EIdent); ok {
					// could be pkg.Func(...) or x.method(...); resolved later
					e = &ECall{Fun: id.Name + "." + f.Name, Recv: f.X, Args: args}
				} else {
					e = &ECall{Fun: "." + f.Name, Recv: f.X, Args: args}
				}
			default:
				return nil, fmt.Errorf("cannot call %s", e)
			}
		default:
			return e, nil
		}
	}
}

// ---------------------------------------------------------------- contract files

type Clause struct {
	Kind  string   // requires ensures modifies invariant decreases ...
	Tags  []string // property tags
	Label string   // optional label: ensures[C08 "seq-advance"]
	Text  string
	E     Expr
	Line  int
	File  string
}

type FuncContract struct {
	Pkg      string // package path
	Key      string // e.g. (*WAL).Append
	Clauses  []*Clause
	Inline   bool
	Trusted  bool // contract assumed, body not verified (must be reported)
	File     string
	Line     int
	Loops    map[int]*LoopContract
	Ghosts   []*GhostStmt
	Params   []QVar // for library specs: parameter names
	Nonblock bool
	NonblockTags []string
	BlocksWhy string // library/interface operation declared blocking
	Safety   bool
	SafetyTags []string
	Uses     []string // lemmas assumed in the function's VC
}

type LoopContract struct {
	Clauses []*Clause
	Line    int
}

// GhostStmt: ghost assignment anchored at entry/exit or before/after the k-th call of a callee.
type GhostStmt struct {
	Check  Expr     // anchored assertion instead of an assignment
	Tags   []string
	Where  string // entry | exit | before | after
	Callee string // for before/after: callee key, e.g. (*MemTablePool).Put
	Ord    int
	LHS    Expr
	RHS    Expr
	Line   int
	Text   string
}

type GhostField struct {
	Pkg, Recv, Name, Type string
	Witness               bool // output of a ghost search (exempt from frame obligations; unknown after every call)
}

type PureFunc struct {
	Pkg    string
	Name   string
	Params []QVar
	Result string
	Body   Expr // nil => uninterpreted
	Text   string
	IsPred bool
	Rec    bool // recursive definition (define-fun-rec); state read by the body becomes an implicit parameter
}

type Lemma struct {
	Pkg, Name string
	E         Expr
	Text      string
	Axiom     bool
	Induct    string // induction variable (lemma NAME induct j from LO: forall ..., j int :: P)
	From      Expr   // lower bound of the induction
	Tags      []string
	Line      int
	File      string
}

// Rule: a structural obligation decided by enumeration over the SSA program (all writers of a field,
// all callers of a function, all methods of a type that can reach a mutator).
type Rule struct {
	Pkg, Text string
	Tags      []string
	Line      int
	File      string
}

type GuardDecl struct {
	Pkg, Recv, Field string
	Mode             string // guarded | atomic | immutable | confined
	By               string // mutex field for guarded
	Line             int
	Tags             []string
}

type SpecFile struct {
	Pkg     string
	Path    string
	Funcs   map[string]*FuncContract
	Ghosts  []*GhostField
	Pures   []*PureFunc
	Lemmas  []*Lemma
	Guards  []*GuardDecl
	Monotone []*GuardDecl
	Rules   []*Rule
	Globals []*GhostField
	Lines   int
	Assumes []string
}

var clauseKinds = map[string]bool{
	"requires": true, "ensures": true, "modifies": true, "invariant": true, "decreases": true,
	"inline": true, "trusted": true, "nonblocking": true, "blocks": true, "acquires": true, "releases": true, "uses": true,
	"ghost": true, "assert": true, "assume": true, "params": true, "havocs": true, "reads": true, "check": true, "safety": true,
}

var topKinds = map[string]bool{"func": true, "loop": true, "pure": true, "predicate": true, "lemma": true,
	"axiom": true, "ghost": true, "guarded": true, "atomic": true, "immutable": true, "confined": true, "lockorder": true, "note": true, "monotone": true, "rule": true}

func splitTags(head string) (kind string, tags []string, label string) {
	kind = head
	if i := strings.Index(head, "["); i >= 0 && strings.HasSuffix(head, "]") {
		kind = head[:i]
		inner := head[i+1 : len(head)-1]
		for _, t := range strings.FieldsFunc(inner, func(r rune) bool { return r == ',' || r == ' ' }) {
			if (strings.HasPrefix(t, "C") && len(t) >= 3 && unicode.IsDigit(rune(t[1]))) || t == "T" || t == "A" || t == "INV" {
				// T = thorough tier only (obligations that need more solver time than the quick budget allows)
				tags = append(tags, t)
			} else {
				label = t
			}
		}
	}
	return
}

func parseParams(s string) ([]QVar, error) {
	var out []QVar
	s = strings.TrimSpace(s)
	if s == "" {
		return nil, nil
	}
	for _, part := range strings.Split(s, ",") {
		f := strings.Fields(part)
		if len(f) < 2 {
			return nil, fmt.Errorf("bad parameter %q", part)
		}
		out = append(out, QVar{f[0], strings.Join(f[1:], "")})
	}
	return out, nil
}

// ParseSpecFile reads //@ lines (or, for .kvs files, all non-comment lines).
func ParseSpecFile(path, pkg string) (*SpecFile, error) {
	data, err := os.ReadFile(path)
	if err != nil {
		return nil, err
	}
	sf := &SpecFile{Pkg: pkg, Path: path, Funcs: map[string]*FuncContract{}}
	kvs := strings.HasSuffix(path, ".kvs")
	type rawLine struct {
		text string
		line int
	}
	var lines []rawLine
	for i, l := range strings.Split(string(data), "\n") {
		t := strings.TrimSpace(l)
		if kvs {
			if t == "" || strings.HasPrefix(t, "#") {
				continue
			}
			if strings.HasPrefix(t, "package ") {
				sf.Pkg = strings.TrimSpace(strings.TrimPrefix(t, "package "))
				continue
			}
			lines = append(lines, rawLine{t, i + 1})
			continue
		}
		if strings.HasPrefix(t, "//@") {
			body := strings.TrimSpace(strings.TrimPrefix(t, "//@"))
			if j := strings.Index(body, " //"); j >= 0 && !strings.Contains(body[:j], "\"") {
				body = strings.TrimSpace(body[:j])
			}
			if body != "" {
				lines = append(lines, rawLine{body, i + 1})
			}
		}
	}
	sf.Lines = len(lines)
	// group continuation lines
	type item struct {
		head string
		rest string
		line int
	}
	var items []item
	for _, l := range lines {
		f := strings.Fields(l.text)
		head := f[0]
		k, _, _ := splitTags(head)
		if topKinds[k] || clauseKinds[k] {
			items = append(items, item{head, strings.TrimSpace(strings.TrimPrefix(l.text, head)), l.line})
		} else {
			if len(items) == 0 {
				return nil, fmt.Errorf("%s:%d: continuation without clause", path, l.line)
			}
			items[len(items)-1].rest += " " + l.text
		}
	}
	var curF *FuncContract
	var curL *LoopContract
	errf := func(line int, f string, a ...interface{}) error {
		return fmt.Errorf("%s:%d: %s", path, line, fmt.Sprintf(f, a...))
	}
	for _, it := range items {
		kind, tags, label := splitTags(it.head)
		switch kind {
		case "func":
			key := it.rest
			var params []QVar
			// library form: func pkg.Name(a T, b T) or plain key
			if kvs {
				if i := strings.LastIndex(key, "("); i > 0 && strings.HasSuffix(key, ")") && !strings.HasPrefix(key[i:], "(*") {
					ps, err := parseParams(key[i+1 : len(key)-1])
					if err == nil {
						params = ps
						key = strings.TrimSpace(key[:i])
					}
				}
			}
			if _, dup := sf.Funcs[key]; dup {
				return nil, errf(it.line, "duplicate contract for %s", key)
			}
			curF = &FuncContract{Pkg: sf.Pkg, Key: key, File: path, Line: it.line, Loops: map[int]*LoopContract{}, Params: params}
			sf.Funcs[key] = curF
			curL = nil
		case "loop":
			i := strings.LastIndex(it.rest, "#")
			if i < 0 {
				return nil, errf(it.line, "loop needs Func#k")
			}
			key := strings.TrimSpace(it.rest[:i])
			k, err := strconv.Atoi(strings.TrimSpace(it.rest[i+1:]))
			if err != nil {
				return nil, errf(it.line, "bad loop ordinal")
			}
			fc := sf.Funcs[key]
			if fc == nil {
				fc = &FuncContract{Pkg: sf.Pkg, Key: key, File: path, Line: it.line, Loops: map[int]*LoopContract{}}
				sf.Funcs[key] = fc
			}
			curL = &LoopContract{Line: it.line}
			fc.Loops[k] = curL
			curF = fc
		case "pure", "predicate":
			// pure func name(params) T = body   |  predicate name(params) = body
			rest := it.rest
			isRec := false
			if kind == "pure" {
				if strings.HasPrefix(rest, "rec ") {
					isRec = true
					rest = strings.TrimSpace(strings.TrimPrefix(rest, "rec"))
				}
				rest = strings.TrimSpace(strings.TrimPrefix(rest, "func"))
			}
			lp := strings.Index(rest, "(")
			if lp < 0 {
				return nil, errf(it.line, "bad pure/predicate declaration")
			}
			name := strings.TrimSpace(rest[:lp])
			// find matching paren
			d, rp := 0, -1
			for i := lp; i < len(rest); i++ {
				if rest[i] == '(' {
					d++
				} else if rest[i] == ')' {
					d--
					if d == 0 {
						rp = i
						break
					}
				}
			}
			if rp < 0 {
				return nil, errf(it.line, "unbalanced parens")
			}
			ps, err := parseParams(rest[lp+1 : rp])
			if err != nil {
				return nil, errf(it.line, "%v", err)
			}
			after := strings.TrimSpace(rest[rp+1:])
			pf := &PureFunc{Pkg: sf.Pkg, Name: name, Params: ps, IsPred: kind == "predicate", Text: it.rest, Rec: isRec}
			var bodyText string
			if eq := strings.Index(after, "="); eq >= 0 && !strings.HasPrefix(after[eq:], "==") {
				pf.Result = strings.TrimSpace(after[:eq])
				bodyText = strings.TrimSpace(after[eq+1:])
			} else {
				pf.Result = after
			}
			if kind == "predicate" {
				pf.Result = "bool"
			}
			if bodyText != "" {
				e, err := ParseExpr(bodyText)
				if err != nil {
					return nil, errf(it.line, "%v", err)
				}
				pf.Body = e
			}
			sf.Pures = append(sf.Pures, pf)
			curF, curL = nil, nil
		case "lemma", "axiom":
			i := strings.Index(it.rest, ":")
			if i < 0 {
				return nil, errf(it.line, "lemma needs name: formula")
			}
			e, err := ParseExpr(it.rest[i+1:])
			if err != nil {
				return nil, errf(it.line, "%v", err)
			}
			lm := &Lemma{Pkg: sf.Pkg, Name: strings.TrimSpace(it.rest[:i]), E: e, Text: it.rest[i+1:], Axiom: kind == "axiom", Tags: tags, Line: it.line, File: path}
			if fs := strings.Fields(lm.Name); len(fs) >= 5 && fs[1] == "induct" && fs[3] == "from" {
				lm.Name, lm.Induct = fs[0], fs[2]
				fe, err := ParseExpr(strings.Join(fs[4:], " "))
				if err != nil {
					return nil, errf(it.line, "%v", err)
				}
				lm.From = fe
			} else if len(fs) != 1 {
				return nil, errf(it.line, "lemma header: NAME [induct VAR from EXPR]: formula")
			}
			sf.Lemmas = append(sf.Lemmas, lm)
			curF, curL = nil, nil
		case "rule":
			sf.Rules = append(sf.Rules, &Rule{Pkg: sf.Pkg, Text: it.rest, Tags: tags, Line: it.line, File: path})
			curF, curL = nil, nil
		case "monotone":
			// monotone[Cxx] (*T).f : every store to the field writes a value >= the old one
			for _, tgt := range strings.Split(strings.Fields(it.rest)[0], ",") {
				i := strings.LastIndex(tgt, ".")
				if i < 0 {
					return nil, errf(it.line, "bad field reference %q", tgt)
				}
				sf.Monotone = append(sf.Monotone, &GuardDecl{Pkg: sf.Pkg, Recv: tgt[:i], Field: tgt[i+1:], Mode: "monotone", Line: it.line, Tags: tags})
			}
			curF, curL = nil, nil
		case "guarded", "atomic", "immutable", "confined":
			// guarded (*T).f by mu   |  atomic (*T).f
			f := strings.Fields(it.rest)
			if len(f) < 1 {
				return nil, errf(it.line, "bad sharing declaration")
			}
			for _, tgt := range strings.Split(f[0], ",") {
				i := strings.LastIndex(tgt, ".")
				if i < 0 {
					return nil, errf(it.line, "bad field reference %q", tgt)
				}
				g := &GuardDecl{Pkg: sf.Pkg, Recv: tgt[:i], Field: tgt[i+1:], Mode: kind, Line: it.line}
				if kind == "guarded" {
					if len(f) != 3 || f[1] != "by" {
						return nil, errf(it.line, "guarded needs `by <mutex>`")
					}
					g.By = f[2]
				}
				sf.Guards = append(sf.Guards, g)
			}
			curF, curL = nil, nil
		case "lockorder", "note":
			curF, curL = nil, nil
		case "ghost":
			f := strings.Fields(it.rest)
			if len(f) >= 3 && f[0] == "global" {
				sf.Globals = append(sf.Globals, &GhostField{Pkg: sf.Pkg, Name: f[1], Type: strings.Join(f[2:], "")})
				continue
			}
			if len(f) >= 4 && (f[0] == "field" || f[0] == "witness") {
				sf.Ghosts = append(sf.Ghosts, &GhostField{Pkg: sf.Pkg, Recv: f[1], Name: f[2], Type: strings.Join(f[3:], ""), Witness: f[0] == "witness"})
				continue
			}
			// ghost statement inside a func contract:  ghost entry: a = b | ghost after call X#k: a = b
			if curF == nil {
				return nil, errf(it.line, "ghost statement outside func")
			}
			i := strings.Index(it.rest, ":")
			if i < 0 {
				return nil, errf(it.line, "ghost statement needs anchor:")
			}
			anchor := strings.Fields(it.rest[:i])
			gs := &GhostStmt{Line: it.line, Text: it.rest}
			switch {
			case len(anchor) == 1 && (anchor[0] == "entry" || anchor[0] == "exit"):
				gs.Where = anchor[0]
			case len(anchor) == 3 && (anchor[0] == "before" || anchor[0] == "after") && anchor[1] == "call":
				gs.Where = anchor[0]
				j := strings.LastIndex(anchor[2], "#")
				if j < 0 {
					return nil, errf(it.line, "call anchor needs #k")
				}
				gs.Callee = anchor[2][:j]
				gs.Ord, _ = strconv.Atoi(anchor[2][j+1:])
			default:
				return nil, errf(it.line, "bad ghost anchor %q", it.rest[:i])
			}
			stmt := it.rest[i+1:]
			eq := -1
			for k := 0; k < len(stmt); k++ {
				if stmt[k] == '=' && (k+1 >= len(stmt) || stmt[k+1] != '=') && (k == 0 || !strings.ContainsRune("=!<>", rune(stmt[k-1]))) {
					eq = k
					break
				}
			}
			if eq < 0 {
				return nil, errf(it.line, "ghost statement needs lhs = rhs")
			}
			l, err := ParseExpr(stmt[:eq])
			if err != nil {
				return nil, errf(it.line, "%v", err)
			}
			r, err := ParseExpr(stmt[eq+1:])
			if err != nil {
				return nil, errf(it.line, "%v", err)
			}
			gs.LHS, gs.RHS = l, r
			curF.Ghosts = append(curF.Ghosts, gs)
		default:
			if !clauseKinds[kind] {
				return nil, errf(it.line, "unknown clause %q", kind)
			}
			if curF == nil {
				return nil, errf(it.line, "clause %q outside func/loop", kind)
			}
			c := &Clause{Kind: kind, Tags: tags, Label: label, Text: it.rest, Line: it.line, File: path}
			switch kind {
			case "check":
				// check[Cxx] before call X#k: formula   (anchored assertion)
				i := strings.Index(it.rest, ":")
				if i < 0 {
					return nil, errf(it.line, "check needs anchor:")
				}
				anchor := strings.Fields(it.rest[:i])
				gs := &GhostStmt{Line: it.line, Text: it.rest, Tags: tags}
				if len(anchor) == 3 && (anchor[0] == "before" || anchor[0] == "after") && anchor[1] == "call" {
					gs.Where = anchor[0]
					j := strings.LastIndex(anchor[2], "#")
					if j < 0 {
						return nil, errf(it.line, "call anchor needs #k")
					}
					gs.Callee = anchor[2][:j]
					gs.Ord, _ = strconv.Atoi(anchor[2][j+1:])
				} else {
					return nil, errf(it.line, "bad check anchor %q", it.rest[:i])
				}
				e, err := ParseExpr(it.rest[i+1:])
				if err != nil {
					return nil, errf(it.line, "%v", err)
				}
				gs.Check = e
				curF.Ghosts = append(curF.Ghosts, gs)
				continue
			case "safety":
				// safety[Cxx]: no-panic obligations (index, slice, nil, division, type assertion, explicit panic) for this function
				curF.Safety = true
				curF.SafetyTags = tags
				continue
			case "inline":
				curF.Inline = true
				continue
			case "uses":
				// uses lemma1, lemma2: proved lemmas assumed in this function's VC
				for _, nm := range strings.Split(it.rest, ",") {
					if nm = strings.TrimSpace(nm); nm != "" {
						curF.Uses = append(curF.Uses, nm)
					}
				}
				continue
			case "trusted":
				curF.Trusted = true
				sf.Assumes = append(sf.Assumes, "trusted contract: "+curF.Key+" ("+it.rest+")")
				continue
			case "nonblocking":
				curF.Nonblock = true
				curF.NonblockTags = tags
				continue
			case "blocks":
				// blocks <why>: the (library / interface) operation may block for as long as a peer wants
				curF.BlocksWhy = strings.TrimSpace(it.rest)
				if curF.BlocksWhy == "" {
					curF.BlocksWhy = "blocking operation"
				}
				continue
			case "params":
				ps, err := parseParams(it.rest)
				if err != nil {
					return nil, errf(it.line, "%v", err)
				}
				curF.Params = ps
				continue
			case "modifies", "acquires", "releases", "havocs", "reads":
				// comma-separated location list, parsed later
			default:
				e, err := ParseExpr(it.rest)
				if err != nil {
					return nil, errf(it.line, "%v", err)
				}
				c.E = e
			}
			if curL != nil {
				if kind != "invariant" && kind != "decreases" && kind != "modifies" && kind != "assert" {
					return nil, errf(it.line, "%s clause inside a loop block (only invariant/decreases/modifies belong there)", kind)
				}
				curL.Clauses = append(curL.Clauses, c)
			} else {
				if kind == "requires" && hasTag(c.Tags, "INV") {
					sf.Assumes = append(sf.Assumes, "object invariant assumed at method entry (established by constructors, preserved by methods, representation confined): "+curF.Key+": "+it.rest)
				}
				if kind == "ensures" && hasTag(c.Tags, "A") {
					sf.Assumes = append(sf.Assumes, "assumed postcondition (not checked against the body): "+curF.Key+": "+it.rest)
				}
				curF.Clauses = append(curF.Clauses, c)
			}
		}
	}
	return sf, nil
}

// splitTopLevel splits s at commas that are not nested in brackets/parens.
func splitTopLevel(s string) []string {
	var out []string
	d, last := 0, 0
	for i := 0; i < len(s); i++ {
		switch s[i] {
		case '(', '[':
			d++
		case ')', ']':
			d--
		case ',':
			if d == 0 {
				out = append(out, strings.TrimSpace(s[last:i]))
				last = i + 1
			}
		}
	}
	if t := strings.TrimSpace(s[last:]); t != "" {
		out = append(out, t)
	}
	return out
}

// conjuncts flattens top-level && so that each conjunct becomes its own obligation.
func conjuncts(e Expr) []Expr {
	if b, ok := e.(*EBin); ok && b.Op == "&&" {
		return append(conjuncts(b.L), conjuncts(b.R)...)
	}
	return []Expr{e}
}
