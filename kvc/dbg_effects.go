package main

import (
	"fmt"
	"os"
	"strings"

	"golang.org/x/tools/go/ssa"
)

func (p *Prog) debugInvokes(sub string) {
	for k := range blockingIface {
		fmt.Fprintln(os.Stderr, "blockingIface:", k)
	}
	for _, fn := range p.allFuncs {
		if !strings.Contains(fn.String(), sub) {
			continue
		}
		for _, b := range fn.Blocks {
			for _, in := range b.Instrs {
				if ci, ok := in.(ssa.CallInstruction); ok && ci.Common().IsInvoke() {
					c := ci.Common()
					fmt.Fprintln(os.Stderr, fn.String(), "invoke:", typeName(c.Value.Type())+"."+c.Method.Name())
				}
			}
		}
		if ms := p.autoMods[fn]; ms != nil {
			fmt.Fprintln(os.Stderr, fn.String(), "blocks:", ms.Blocks, ms.BlockWhy)
		}
	}
}
