package main

// `kvc check`: decide one property = verify every function whose contract carries a clause tagged with
// the property (plus the property's declared extra units), report VIOLATION / KNOWN-FINDING lines,
// write the replay files and the evidence JSON.

import (
	"crypto/sha1"
	"encoding/json"
	"flag"
	"fmt"
	"os"
	"path/filepath"
	"sort"
	"strconv"
	"strings"
	"sync"
	"time"

	"golang.org/x/tools/go/ssa"
)

type propConfig struct {
	Safety      bool     // index/nil/div/assert obligations in the unit functions
	Locks       bool     // lock-state and guarded-by obligations
	SweepPkgs   []string // zero-annotation sweep over these package suffixes (C07)
	Composition string   // the unchecked step from the discharged obligations to the property statement
	Level       string
	NotCovered  []string
}

var propCfgs = map[string]propConfig{}

type KnownFinding struct {
	Property   string `json:"property"`
	Obligation string `json:"obligation"` // "<pkg path suffix>::<obligation name>"
	Status     string `json:"status"`     // known | fixed
	What       string `json:"what"`
	Commit     string `json:"commit,omitempty"`
	Replay     string `json:"replay,omitempty"`
}

func loadKnown(path string) []KnownFinding {
	data, err := os.ReadFile(path)
	if err != nil {
		return nil
	}
	var out []KnownFinding
	if err := json.Unmarshal(data, &out); err != nil {
		fmt.Fprintln(os.Stderr, "known_findings.json:", err)
		os.Exit(2)
	}
	return out
}

func shortPkg(path string) string {
	return strings.TrimPrefix(strings.TrimPrefix(path, repoPrefix), "/")
}

func oblID(fnKey string, ob *Obligation) string {
	// fnKey = pkgpath::relkey ; obligation names start with relkey
	pk := fnKey[:strings.Index(fnKey, "::")]
	return shortPkg(pk) + "::" + ob.Name
}

func hasTag(tags []string, t string) bool {
	for _, x := range tags {
		if x == t {
			return true
		}
	}
	return false
}

// unitsFor: functions with at least one clause tagged with the property.
func (p *Prog) unitsFor(prop string) []*ssa.Function {
	var out []*ssa.Function
	for fn, fc := range p.contracts {
		if fc.Inline || fc.Trusted {
			continue // inline: verified at every inlining site; trusted: assumed (listed in the evidence)
		}
		tagged := fc.Safety && hasTag(fc.SafetyTags, prop)
		for _, c := range fc.Clauses {
			if hasTag(c.Tags, prop) {
				tagged = true
			}
		}
		for _, lc := range fc.Loops {
			for _, c := range lc.Clauses {
				if hasTag(c.Tags, prop) {
					tagged = true
				}
			}
		}
		for _, g := range fc.Ghosts {
			if g.Check != nil && hasTag(g.Tags, prop) {
				tagged = true
			}
		}
		if tagged {
			out = append(out, fn)
		}
	}
	// every function that stores to a field declared monotone for this property
	seen := map[*ssa.Function]bool{}
	for _, f := range out {
		seen[f] = true
	}
	for _, f := range p.storesToMonotone(prop) {
		if fc := p.contracts[f]; fc != nil && fc.Inline {
			continue
		}
		if !seen[f] {
			seen[f] = true
			out = append(out, f)
		}
	}
	sort.Slice(out, func(i, j int) bool { return fullKey(out[i]) < fullKey(out[j]) })
	return out
}

type evSample struct {
	Obligation string  `json:"obligation"`
	Kind       string  `json:"kind"`
	Clause     string  `json:"clause,omitempty"`
	Result     string  `json:"result"`
	Solver     string  `json:"solver,omitempty"`
	Seconds    float64 `json:"seconds"`
	SMTBytes   int     `json:"smt_bytes,omitempty"`
	Pos        string  `json:"pos,omitempty"`
}

func cmdCheck(args []string) int {
	fs := flag.NewFlagSet("check", flag.ExitOnError)
	prop := fs.String("property", "", "property id")
	tier := fs.String("tier", "quick", "quick|thorough")
	repo := fs.String("repo", "/repo", "repository")
	verifDir := fs.String("verif", "/verif", "verif dir")
	verbose := fs.Bool("v", false, "verbose")
	fs.Parse(args)
	t0 := time.Now()
	seed := 0
	if s := os.Getenv("VERIF_SEED"); s != "" {
		seed, _ = strconv.Atoi(s)
	}
	cfg := propCfgs[*prop]
	p := loadAll(*repo)
	known := loadKnown(filepath.Join(*verifDir, "known_findings.json"))
	units := p.unitsFor(*prop)
	sweepBase := loadSweepBaseline(filepath.Join(*verifDir, "sweep_baseline.json"))
	sweepFns := map[*ssa.Function]bool{}
	if len(cfg.SweepPkgs) > 0 {
		have := map[*ssa.Function]bool{}
		for _, f := range units {
			have[f] = true
		}
		for _, f := range p.sweepUnits(cfg.SweepPkgs) {
			if !have[f] {
				units = append(units, f)
				sweepFns[f] = true
			}
		}
	}
	writeBaseline := os.Getenv("KVC_WRITE_SWEEP_BASELINE") != ""
	newBaseline := map[string]string{}
	unclaimedHit := 0
	timeout := 20
	if *tier == "thorough" {
		timeout = 120
	}
	opts := VerifyOpts{Thorough: *tier == "thorough", ThoroughProp: *prop, Safety: cfg.Safety, Locks: cfg.Locks, TimeoutS: timeout, Seed: seed, Smoke: true,
		SafetyTags: []string{*prop}, LockTags: []string{*prop}}
	// roots plus, transitively, every callee whose contract a proof assumed (no proof rests on an unproved contract)
	var results []*FuncResult
	done := map[*ssa.Function]bool{}
	roots := len(units)
	work := units
	for len(work) > 0 {
		batch := make([]*FuncResult, len(work))
		var wg sync.WaitGroup
		sem := make(chan struct{}, 6)
		for i, fn := range work {
			done[fn] = true
			i, fn := i, fn
			wg.Add(1)
			go func() {
				defer wg.Done()
				sem <- struct{}{}
				defer func() { <-sem }()
				o := opts
				if sweepFns[fn] {
					// zero-annotation sweep: only the lock discipline obligations of this function are claimed here; its
					// functional contracts (if any) and those of its callees belong to the properties they are tagged with
					o.OnlyKinds = map[string]bool{"lock": true, "guard": true}
				}
				batch[i] = p.VerifyFunc(fn, o)
			}()
		}
		wg.Wait()
		results = append(results, batch...)
		var next []*ssa.Function
		for _, r := range batch {
			if sweepFns[r.Fn] {
				continue
			}
			for _, c := range r.Called {
				if !done[c] {
					if fc := p.contracts[c]; fc != nil && !fc.Trusted {
						done[c] = true
						next = append(next, c)
					}
				}
			}
		}
		sort.Slice(next, func(i, j int) bool { return fullKey(next[i]) < fullKey(next[j]) })
		work = next
	}
	sort.Slice(results, func(i, j int) bool { return results[i].Key < results[j].Key })
	// lemmas tagged with the property, and every lemma a unit's VC used as an axiom
	usedLemmas := map[string]bool{}
	for _, r := range results {
		for _, u := range r.Used {
			if strings.HasPrefix(u, "lemma: ") {
				usedLemmas[strings.TrimPrefix(u, "lemma: ")] = true
			}
		}
	}
	lemmaRes := p.checkLemmas(*prop, timeout, seed, usedLemmas)

	violations := 0
	var lines []string
	var samples []evSample
	obligations, discharged := 0, 0
	var knownHit []string
	var fnames []string
	usedSet := map[string]bool{}
	libSet := map[string]bool{}
	smokeRun, smokeBad := 0, 0
	var unsup []string
	os.MkdirAll(filepath.Join(*verifDir, "replays"), 0755)
	resByKey := map[string]*FuncResult{}
	for _, r := range results {
		resByKey[r.Key] = r
	}
	report := func(id string, ob *Obligation, status, detail, model, fnKey string) {
		// known finding?
		for _, k := range known {
			if k.Status == "known" && k.Obligation == id {
				lines = append(lines, fmt.Sprintf("KNOWN-FINDING: property=%s %s [%s]", k.Property, k.What, id))
				knownHit = append(knownHit, id)
				return
			}
		}
		violations++
		h := sha1.Sum([]byte(id))
		rp := filepath.Join(*verifDir, "replays", fmt.Sprintf("%s-%x.json", *prop, h[:6]))
		rep := map[string]interface{}{"property": *prop, "obligation": id, "status": status, "solver_output": detail, "function": fnKey}
		if ob != nil {
			rep["kind"], rep["clause"], rep["pos"] = ob.Kind, ob.Text, ob.Pos
		}
		suffix := " no-failing-input-found"
		if model != "" {
			rep["model"] = truncate(model, 20000)
		}
		if ob != nil && fnKey != "" {
			if ok, out := p.replayObligation(*verifDir, *repo, id, resByKey[fnKey], ob); out != "" {
				rep["replay_output"] = out
				if ok {
					suffix = ""
					rep["replay_confirmed"] = true
				}
			}
		}
		data, _ := json.MarshalIndent(rep, "", " ")
		os.WriteFile(rp, data, 0644)
		lines = append(lines, fmt.Sprintf("VIOLATION property=%s replay=%s%s", *prop, rp, suffix))
		fmt.Fprintf(os.Stderr, "  failed obligation %s: %s (%s)\n", id, status, detail)
	}
	for _, r := range results {
		fnames = append(fnames, shortPkg(r.Key))
		for _, u := range r.Used {
			usedSet[u] = true
		}
		for _, u := range r.UsedLib {
			libSet[u] = true
		}
		unsup = append(unsup, r.Unsup...)
		smokeRun += r.SmokeRun
		smokeBad += len(r.SmokeBad)
		if *verbose {
			printFuncResult(r, false)
		}
		for _, e := range r.SpecErrs {
			report(shortPkg(r.Key)+"/contract", nil, "contract-error", e, "", r.Key)
		}
		anyFailed := false
		for _, or := range r.Results {
			if or.Status != "proved" {
				anyFailed = true
			}
		}
		for _, b := range r.SmokeBad {
			if anyFailed && strings.HasSuffix(b, "/smoke/exit") {
				continue // unreachable exit is a consequence of an assertion that already failed in this function
			}
			report(shortPkg(r.Key)+"/"+b, nil, "vacuous", "precondition/invariant contradictory or exit unreachable: proof would be vacuous", "", r.Key)
		}
		for _, or := range r.Results {
			id := oblID(r.Key, or.Ob)
			isKnown := false
			for _, k := range known {
				if k.Status == "known" && k.Obligation == id {
					isKnown = true
				}
			}
			if !isKnown {
				obligations++
			}
			if or.Status == "proved" {
				if !isKnown {
					discharged++
				}
			} else if isKnown {
				report(id, or.Ob, or.Status, or.Detail, or.Model, r.Key)
			} else if _, un := sweepBase[*prop][id]; un && !writeBaseline {
				// not claimed: needs a precondition nobody wrote (zero-annotation sweep)
				obligations--
				unclaimedHit++
			} else if writeBaseline && sweepFns[r.Fn] {
				obligations--
				newBaseline[id] = "needs contract: " + or.Status + " on the unchanged tree without annotations (" + truncate(or.Ob.Text, 80) + ")"
			} else {
				report(id, or.Ob, or.Status, or.Detail, or.Model, r.Key)
			}
			if len(samples) < 400 {
				samples = append(samples, evSample{id, or.Ob.Kind, truncate(or.Ob.Text, 200), or.Status, or.Solver, round3(or.Seconds), or.SMTSize, or.Ob.Pos})
			}
		}
	}
	for _, lr := range lemmaRes {
		obligations++
		if lr.Status == "proved" {
			discharged++
		} else {
			report("lemma::"+lr.Ob.Name, lr.Ob, lr.Status, lr.Detail, lr.Model, "")
		}
		samples = append(samples, evSample{"lemma::" + lr.Ob.Name, "lemma", truncate(lr.Ob.Text, 200), lr.Status, lr.Solver, round3(lr.Seconds), lr.SMTSize, lr.Ob.Pos})
	}
	for _, ae := range p.anchorErrs {
		tagged := ae.fc.Safety && hasTag(ae.fc.SafetyTags, *prop)
		for _, c := range ae.fc.Clauses {
			if hasTag(c.Tags, *prop) {
				tagged = true
			}
		}
		for _, lc := range ae.fc.Loops {
			for _, c := range lc.Clauses {
				if hasTag(c.Tags, *prop) {
					tagged = true
				}
			}
		}
		if tagged || len(cfg.SweepPkgs) > 0 {
			obligations++
			report(shortPkg(ae.fc.Pkg)+"::"+ae.fc.Key+"/contract-anchor", nil, "anchor-lost", ae.msg, "", "")
		}
	}
	ruleRes := p.checkRules(*prop)
	ruleRes = append(ruleRes, p.checkNonblocking(*prop)...)
	ruleOK := 0
	for _, rr := range ruleRes {
		obligations++
		st := "proved"
		if rr.OK {
			discharged++
			ruleOK++
		} else {
			st = "refuted"
			ob := &Obligation{Name: rr.Name, Kind: "rule", Text: rr.Rule.Text, Pos: fmt.Sprintf("%s:%d", strings.TrimPrefix(rr.Rule.File, "/repo/"), rr.Rule.Line)}
			report(shortPkg(rr.Rule.Pkg)+"::"+rr.Name, ob, "refuted (enumeration over SSA)", rr.Detail, "", "")
		}
		samples = append(samples, evSample{shortPkg(rr.Rule.Pkg) + "::" + rr.Name, "rule", truncate(rr.Rule.Text, 200), st, "ssa-enumeration", 0, 0, ""})
	}
	if len(ruleRes) > 0 {
		usedSet["structural rules decided by enumeration over go/ssa (writers of a field, callers incl. CHA dispatch, method sets)"] = true
	}
	bounded := runBounded(*verifDir, *repo, *prop)
	for _, b := range bounded {
		if strings.HasPrefix(b.Result, "violation") || b.Result == "error" {
			violations++
			h := sha1.Sum([]byte("bounded::" + b.Name))
			rp := filepath.Join(*verifDir, "replays", fmt.Sprintf("%s-%x.json", *prop, h[:6]))
			rep := map[string]interface{}{"property": *prop, "obligation": "bounded::" + b.Name, "kind": "bounded stand-in", "status": b.Result, "stands_in_for": b.StandsInFor, "bound": b.Bound, "replay_output": b.output}
			suffix := ""
			if b.Result == "error" {
				suffix = " no-failing-input-found"
			} else {
				rep["replay_confirmed"] = true
			}
			data, _ := json.MarshalIndent(rep, "", " ")
			os.WriteFile(rp, data, 0644)
			lines = append(lines, fmt.Sprintf("VIOLATION property=%s replay=%s%s", *prop, rp, suffix))
			fmt.Fprintf(os.Stderr, "  failed bounded stand-in %s: %s\n", b.Name, b.Result)
		}
	}
	if len(units) == 0 && len(lemmaRes) == 0 && len(ruleRes) == 0 && len(bounded) == 0 {
		lines = append(lines, fmt.Sprintf("VIOLATION property=%s replay=%s no-failing-input-found", *prop, filepath.Join(*verifDir, "replays", *prop+"-no-obligations.json")))
		os.WriteFile(filepath.Join(*verifDir, "replays", *prop+"-no-obligations.json"), []byte(`{"error":"no function carries a contract clause for this property: zero obligations generated"}`), 0644)
		violations++
	}
	// evidence
	var trusted []string
	for k := range usedSet {
		trusted = append(trusted, k)
	}
	for k := range libSet {
		trusted = append(trusted, "library model: "+k)
	}
	trusted = append(trusted, p.specAssumes...)
	sort.Strings(trusted)
	backends := map[string]interface{}{}
	solverTimes.Range(func(k, v interface{}) bool {
		s := v.(*solverStat)
		backends[k.(string)] = map[string]interface{}{"queries_decided": s.decided, "seconds": round3(s.seconds)}
		return true
	})
	sort.Strings(unsup)
	unsup = dedup(unsup)
	assumptions := []string{
		"VCs are generated from go/ssa (naive form, -tags verif) of /repo's working tree; pre-1.22 loop-variable semantics forced in the SSA builder",
		"integers: mathematical Int with Go wrap-around made explicit by mod at every operation whose static interval may leave the type; lengths bounded by 2^48 (A-LEN)",
		"no interleaving explored: `go` is a no-op at the spawn site, channel operations are non-blocking with arbitrary values, atomics are sequentially consistent and not changed by other goroutines between two accesses of one function",
		"termination is not proved; panics are obligations only where safety obligations are enabled for this property",
		"callees without contract: inlined when small and loop-free, otherwise their inferred field-granular frame is havocked and results are arbitrary",
		"I/O and library calls follow the built-in models / specs listed in trusted_base",
	}
	if cfg.Composition != "" {
		assumptions = append(assumptions, "composition (unchecked): "+cfg.Composition)
	}
	for _, nc := range cfg.NotCovered {
		assumptions = append(assumptions, "not covered: "+nc)
	}
	sort.Strings(fnames)
	ev := map[string]interface{}{
		"property_id": *prop, "tier": *tier, "seed": seed, "level": "proof",
		"coverage": map[string]interface{}{
			"obligations": obligations, "discharged": discharged,
			"checker_cmd":  fmt.Sprintf("/verif/bin/kvc check -property %s -tier %s  (z3 4.8.12 | z3 5.1.0 | cvc5 1.0 raced per query, %ds limit)", *prop, *tier, timeout),
			"trusted_base": trusted, "functions_under_contract": fnames, "functions": len(fnames), "root_functions": roots,
			"samples": samples, "backends": backends,
			"vacuity":               map[string]int{"smoke_probes_run": smokeRun, "smoke_probes_provable": smokeBad},
			"known_findings_matched": knownHit,
			"bounded_stand_ins":      bounded,
			"constructs_abstracted": unsup,
			"load_seconds":          round3(p.loadSecs),
			"queries":               queryCount,
		},
		"assumptions": assumptions,
		"wall_s":      round3(time.Since(t0).Seconds()),
		"violations":  violations,
	}
	if len(units) == 0 && len(lemmaRes) == 0 && len(ruleRes) > 0 {
		// decided by enumeration / effect inference over go/ssa only: no solver obligation is involved
		ev["level"] = "other"
		ev["coverage"].(map[string]interface{})["explanation"] = fmt.Sprintf("%d structural/effect obligations decided by least-fixpoint enumeration over go/ssa (call graph incl. interface dispatch and function values, lockset dataflow): %d hold, %d fail and are listed as known findings with a replay against the real code; no SMT query is involved", obligations+len(knownHit), discharged, len(knownHit))
	}
	// the level recorded is the one MANIFEST.json claims for the property (the manifest is generated from
	// tools/mkmanifest.py; /verif/MANIFEST.json is read, also when evidence goes to a scratch directory)
	if cat := manifestCategory("/verif/MANIFEST.json", *prop); cat == "other" && ev["level"] != "other" {
		ev["level"] = "other"
		nEffect := 0
		for _, r := range ruleRes {
			_ = r
			nEffect++
		}
		ev["coverage"].(map[string]interface{})["explanation"] = fmt.Sprintf("the property is decided by effect contracts (`nonblocking`) and structural rules evaluated by least-fixpoint enumeration over go/ssa (call graph incl. interface dispatch and function values, lockset dataflow): %d such obligations, those that fail are listed as known findings with a replay against the real code; the remaining obligations counted here are the lock obligations (non re-entrancy, balance, unlock of a held lock) of the swept package, discharged by the SMT back ends", nEffect)
	}
	if obligations == 0 {
		// keep the evidence file schema-valid even when nothing was generated
		ev["coverage"].(map[string]interface{})["obligations"] = 0
	}
	if writeBaseline {
		for k, v := range sweepBase[*prop] {
			if _, ok := newBaseline[k]; !ok {
				_ = v
			}
		}
		sweepBase[*prop] = newBaseline
		bd, _ := json.MarshalIndent(sweepBase, "", " ")
		os.WriteFile(filepath.Join(*verifDir, "sweep_baseline.json"), bd, 0644)
		fmt.Printf("wrote sweep baseline: %d unclaimed obligations\n", len(newBaseline))
	}
	ev["coverage"].(map[string]interface{})["sweep_functions"] = len(sweepFns)
	ev["coverage"].(map[string]interface{})["sweep_unclaimed_needs_contract"] = unclaimedHit
	os.MkdirAll(filepath.Join(*verifDir, "evidence"), 0755)
	data, _ := json.MarshalIndent(ev, "", " ")
	os.WriteFile(filepath.Join(*verifDir, "evidence", *prop+".json"), data, 0644)
	sort.Strings(lines)
	for _, l := range dedup(lines) {
		fmt.Println(l)
	}
	fmt.Printf("%s %s: %d functions, %d obligations, %d discharged, %d known findings, %d violations, %.1fs\n", *prop, *tier, len(fnames), obligations, discharged, len(knownHit), violations, time.Since(t0).Seconds())
	if violations > 0 {
		return 1
	}
	return 0
}

func dedup(xs []string) []string {
	var out []string
	for i, x := range xs {
		if i == 0 || x != xs[i-1] {
			out = append(out, x)
		}
	}
	return out
}

func truncate(s string, n int) string {
	if len(s) > n {
		return s[:n] + "..."
	}
	return s
}

func round3(f float64) float64 { return float64(int(f*1000+0.5)) / 1000 }

// checkLemmas: lemmas are proved from definitions only (no function body); `induct j from LO` lemmas by induction:
// base (j <= LO) and step (j > LO, hypothesis: the lemma for j-1 and the same values of the other variables).
func (p *Prog) checkLemmas(prop string, timeout, seed int, extra map[string]bool) []*OblResult {
	var out []*OblResult
	for _, l := range p.lemmas {
		if l.Axiom || !(hasTag(l.Tags, prop) || extra[l.Name]) {
			continue
		}
		vc := newVC(p, "lemma "+l.Name, nil)
		vc.lemmaProving = l
		n := vc.newNode("lemma", Env{})
		fr := &Frame{fn: nil, regs: map[ssa.Value]string{}, lvs: map[ssa.Value]*LVal{}, entryEnv: Env{}, checkedNil: map[string]bool{}, allocFresh: map[string]bool{}}
		sc := &SpecCtx{vc: vc, fr: fr, node: n, env: n.env, old: n.env, names: map[string]Val{}}
		if pk, ok := p.pkgs[l.Pkg]; ok && pk.Types != nil {
			sc.pkg = pk.Types
		}
		pos := fmt.Sprintf("%s:%d", strings.TrimPrefix(l.File, "/repo/"), l.Line)
		type part struct {
			name string
			f    string
		}
		var parts []part
		var perr error
		if l.Induct == "" {
			f, err := sc.formula(l.E)
			perr = err
			parts = append(parts, part{l.Name, f})
		} else {
			q, ok := l.E.(*EQuant)
			if !ok || !q.Forall {
				perr = fmt.Errorf("induction lemma must be a forall")
			} else {
				var guards []string
				var others []QVar
				found := false
				for _, qv := range q.Vars {
					ty, srt, err := sc.resolveType(qv.Type)
					if err != nil {
						perr = err
						break
					}
					sym := vc.fresh("lk$"+qv.Name, srt)
					sc.names[qv.Name] = Val{T: sym, Ty: ty, Sort: srt}
					if ty != nil {
						if g := vc.srt.typeFact(sym, ty); g != "true" {
							guards = append(guards, g)
						}
					}
					if qv.Name == l.Induct {
						found = true
					} else {
						others = append(others, qv)
					}
				}
				if perr == nil && !found {
					perr = fmt.Errorf("induction variable %s is not bound by the lemma", l.Induct)
				}
				if perr == nil {
					j := sc.names[l.Induct]
					from, err := sc.eval(l.From)
					if err != nil {
						perr = err
					} else {
						goal, err := sc.formula(q.Body)
						if err != nil {
							perr = err
						} else {
							c := *sc
							c.names = map[string]Val{}
							for k, v := range sc.names {
								c.names[k] = v
							}
							c.names[l.Induct] = Val{T: app("-", j.T, "1"), Ty: j.Ty, Sort: j.Sort}
							var hyp string
							// induction hypothesis for the same values of the other variables (enough for structural
							// recursion on one argument, and far easier on the solvers than a quantified hypothesis)
							_ = others
							hyp, err = c.formula(q.Body)
							if err != nil {
								perr = err
							} else {
								g := sAnd(guards...)
								parts = append(parts, part{l.Name + "/base", sImp(sAnd(g, app("<=", j.T, sc.term(from))), goal)})
								parts = append(parts, part{l.Name + "/step", sImp(sAnd(g, app(">", j.T, sc.term(from)), hyp), goal)})
							}
						}
					}
				}
			}
		}
		if perr != nil {
			ob := vc.newObl(l.Name, "lemma", l.Tags, l.Text, 0)
			ob.Pos = pos
			out = append(out, &OblResult{Ob: ob, Status: "contract-error", Detail: perr.Error()})
			continue
		}
		for _, pt := range parts {
			ob := vc.newObl(pt.name, "lemma", l.Tags, l.Text, 0)
			ob.Pos = pos
			vc.assertAt(n, pt.f, ob)
		}
		vc.instantiateLemmas()
		for _, c := range n.cmds {
			if !c.Assert {
				continue
			}
			ob := c.Ob
			q := vc.Query(map[*Obligation]bool{ob: true}, n, true, "")
			r := runSolvers(q, timeout, seed, "lemma "+ob.Name)
			or := &OblResult{Ob: ob, Solver: r.Solver, Seconds: r.Seconds, Detail: r.Detail, SMTSize: len(q)}
			switch r.Status {
			case "unsat":
				or.Status = "proved"
			case "sat":
				or.Status, or.Model = "refuted", r.Model
			default:
				or.Status = "undecided"
			}
			out = append(out, or)
		}
	}
	return out
}

// tryReplay: generic replay of a counterexample on the real code (see replay.go).
func (p *Prog) tryReplay(fnKey string, ob *Obligation, model string) (bool, string) {
	return false, ""
}

// manifestCategory: level_claimed.category of a property in MANIFEST.json ("" when unavailable).
func manifestCategory(path, prop string) string {
	b, err := os.ReadFile(path)
	if err != nil {
		return ""
	}
	var m struct {
		Checks []struct {
			PropertyID   string `json:"property_id"`
			LevelClaimed struct {
				Category string `json:"category"`
			} `json:"level_claimed"`
		} `json:"checks"`
	}
	if json.Unmarshal(b, &m) != nil {
		return ""
	}
	for _, c := range m.Checks {
		if c.PropertyID == prop {
			return c.LevelClaimed.Category
		}
	}
	return ""
}
