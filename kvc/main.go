package main

import (
	"flag"
	"fmt"
	"os"
	"sort"
	"strings"
	"time"
)

func main() {
	if len(os.Args) < 2 {
		fmt.Fprintln(os.Stderr, "usage: kvc func|check|list ...")
		os.Exit(2)
	}
	defer cleanupWorkDir()
	switch os.Args[1] {
	case "func":
		cmdFunc(os.Args[2:])
	case "lemma":
		cmdLemma(os.Args[2:])
	case "check":
		rc := cmdCheck(os.Args[2:])
		cleanupWorkDir()
		os.Exit(rc)
	default:
		fmt.Fprintln(os.Stderr, "unknown command")
		os.Exit(2)
	}
}

func loadAll(repo string) *Prog {
	t0 := time.Now()
	p, err := LoadProg(repo, []string{"./pkg/...", "./cmd/kevo/..."})
	if err != nil {
		fmt.Fprintln(os.Stderr, "load:", err)
		cleanupWorkDir()
		os.Exit(2)
	}
	if err := p.loadLibSpecs("/verif/specs"); err != nil {
		fmt.Fprintln(os.Stderr, "specs:", err)
		cleanupWorkDir()
		os.Exit(2)
	}
	p.computeSentinels()
	p.computeAutoMods()
	p.computeLockMaps()
	p.loadSecs = time.Since(t0).Seconds()
	return p
}

// kvc lemma [-timeout N] name...   (all lemmas when no name is given)
func cmdLemma(args []string) {
	fs := flag.NewFlagSet("lemma", flag.ExitOnError)
	timeout := fs.Int("timeout", 20, "solver timeout (s)")
	repo := fs.String("repo", "/repo", "repository")
	fs.Parse(args)
	p := loadAll(*repo)
	extra := map[string]bool{}
	for _, l := range p.lemmas {
		if len(fs.Args()) == 0 {
			extra[l.Name] = true
		}
	}
	for _, a := range fs.Args() {
		extra[a] = true
	}
	for _, or := range p.checkLemmas("", *timeout, 1, extra) {
		fmt.Printf("   %-10s %-50s %s %.2fs  %s\n", or.Status, or.Ob.Name, or.Solver, or.Seconds, or.Ob.Pos)
		if or.Status != "proved" {
			fmt.Printf("              solvers: %s\n", truncate(or.Detail, 400))
		}
	}
}

// kvc func [-safety] [-locks] [-dump] <pkgsuffix::key> ...
func cmdFunc(args []string) {
	fs := flag.NewFlagSet("func", flag.ExitOnError)
	safety := fs.Bool("safety", false, "emit safety obligations")
	locks := fs.Bool("locks", false, "emit lock obligations")
	dump := fs.Bool("dump", false, "dump query")
	timeout := fs.Int("timeout", 20, "solver timeout (s)")
	smoke := fs.Bool("smoke", true, "smoke probes")
	thorough := fs.Bool("thorough", false, "include thorough-tier (T) clauses")
	repo := fs.String("repo", "/repo", "repository")
	fs.Parse(args)
	p := loadAll(*repo)
	fmt.Printf("loaded in %.1fs, %d functions\n", p.loadSecs, len(p.allFuncs))
	for _, a := range fs.Args() {
		var matches []string
		for k := range p.funcs {
			if strings.HasSuffix(k, a) {
				matches = append(matches, k)
			}
		}
		sort.Strings(matches)
		if len(matches) == 0 {
			fmt.Println("no function matches", a)
			continue
		}
		for _, k := range matches {
			fn := p.funcs[k]
			r := p.VerifyFunc(fn, VerifyOpts{Thorough: *thorough, Safety: *safety, Locks: *locks, TimeoutS: *timeout, Smoke: *smoke})
			printFuncResult(r, true)
			if *dump {
				sel := map[*Obligation]bool{}
				for _, ob := range r.vc.obls {
					if !ob.Smoke {
						sel[ob] = true
					}
				}
				os.WriteFile("/tmp/kvc-dump.smt2", []byte(r.vc.Query(sel, r.entry, true, "")), 0644)
				fmt.Println("query dumped to /tmp/kvc-dump.smt2")
			}
		}
	}
}

func printFuncResult(r *FuncResult, verbose bool) {
	fmt.Printf("== %s  (passes=%d nodes=%d build=%.2fs solve=%.2fs)\n", r.Key, r.Passes, r.Nodes, r.BuildSecs, r.SolveSecs)
	for _, e := range r.SpecErrs {
		fmt.Println("   SPEC ERROR:", e)
	}
	for _, u := range r.Unsup {
		fmt.Println("   unsupported:", u)
	}
	if verbose {
		for _, u := range r.Used {
			fmt.Println("   uses:", u)
		}
	}
	for _, b := range r.SmokeBad {
		fmt.Println("   VACUOUS:", b)
	}
	for _, or := range r.Results {
		if or.Status != "proved" || verbose {
			fmt.Printf("   %-10s %-60s [%s] %s %.2fs  %s\n", or.Status, or.Ob.Name, strings.Join(or.Ob.Tags, ","), or.Solver, or.Seconds, or.Ob.Pos)
			if or.Status != "proved" {
				fmt.Printf("              clause: %s\n              solvers: %s\n", or.Ob.Text, truncate(or.Detail, 400))
			}
		}
	}
}
