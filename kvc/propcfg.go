package main

func init() {
	propCfgs["C07"] = propConfig{SweepPkgs: []string{"/pkg/compaction", "/pkg/engine/storage", "/pkg/engine", "/pkg/engine/compaction", "/pkg/stats",
		"/pkg/sstable", "/pkg/transaction", "/pkg/memtable", "/pkg/bloom_filter", "/pkg/config"}}
	// C15: a self-deadlock (re-acquiring a mutex the caller already holds) stalls every later client operation: the
	// replication package is swept for the lock obligations (non re-entrancy, balanced, unlock of a held lock)
	propCfgs["C15"] = propConfig{SweepPkgs: []string{"/pkg/replication"}}
	for _, id := range []string{"C03", "C04", "C17", "C06", "C07", "C16", "C15"} {
		c := propCfgs[id]
		c.Locks = true
		propCfgs[id] = c
	}
}
