package main

func init() {
	for _, id := range []string{"C03", "C04", "C17", "C06", "C07", "C16"} {
		c := propCfgs[id]
		c.Locks = true
		propCfgs[id] = c
	}
}
