package main

func init() {
	propCfgs["C07"] = propConfig{SweepPkgs: []string{"/pkg/compaction", "/pkg/engine/storage", "/pkg/engine", "/pkg/engine/compaction", "/pkg/stats",
		"/pkg/sstable", "/pkg/transaction", "/pkg/memtable", "/pkg/bloom_filter", "/pkg/config"}}
	for _, id := range []string{"C03", "C04", "C17", "C06", "C07", "C16"} {
		c := propCfgs[id]
		c.Locks = true
		propCfgs[id] = c
	}
}
