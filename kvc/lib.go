package main

// Built-in (assumed) models of Go builtins and library functions.  Every model used by a run is recorded
// in vc.used and ends up in the evidence's trusted_base.

import (
	"fmt"
	"go/constant"
	"go/token"
	"go/types"
	"strings"

	"golang.org/x/tools/go/ssa"
)

func (vc *VC) execBuiltin(fr *Frame, n *Node, b *ssa.Builtin, call *ssa.CallCommon, res ssa.Value, pos token.Pos) {
	var args []string
	for _, a := range call.Args {
		args = append(args, vc.val(fr, a))
	}
	vc.execBuiltinArgs(fr, n, b, call, res, args, pos)
}

func (vc *VC) byteMem() *SVar { return vc.memMap(types.Typ[types.Byte]) }

// bstrOf: abstract content identity of a byte slice in env (same id <=> same bytes, by the dual-level contracts).
func (vc *VC) bstrOf(env Env, s string) string {
	vc.declareFun("bs_", []string{"(Array Int Int)", "Int", "Int"}, "Int")
	vc.declareFun("blen_", []string{"Int"}, "Int")
	m := vc.byteMem()
	return app("bs_", app("select", vc.cur(env, m.Name), app("s.arr", s)), app("s.off", s), app("s.len", s))
}

// byteMemIfDeclared: the byte memory, if some byte-string abstraction has been used in this VC (nil otherwise).
func (vc *VC) byteMemIfDeclared() *SVar {
	if !vc.declared["bs_"] {
		return nil
	}
	return vc.byteMem()
}

// bsFrame: after a write to the window [lo,hi) of a byte row, the content identity bs_ of every window disjoint from
// it is unchanged (frame axiom of the byte-string abstraction; triggered by bs_ terms over the new row only).
func (vc *VC) bsFrame(n *Node, newRow, oldRow, lo, hi string) {
	vc.declareFun("bs_", []string{"(Array Int Int)", "Int", "Int"}, "Int")
	n.assume(fmt.Sprintf("(forall ((o Int) (l Int)) (! (=> (or (<= (+ o l) %s) (>= o %s)) (= (bs_ %s o l) (bs_ %s o l))) :pattern ((bs_ %s o l))))", lo, hi, newRow, oldRow, newRow))
}

func (vc *VC) bstrUse(n *Node, s string, env Env) string {
	t := vc.bstrOf(env, s)
	n.assume(sEq(app("blen_", t), app("s.len", s)))
	return t
}

func (vc *VC) execBuiltinArgs(fr *Frame, n *Node, b *ssa.Builtin, call *ssa.CallCommon, res ssa.Value, args []string, pos token.Pos) {
	switch b.Name() {
	case "len":
		t := call.Args[0].Type()
		switch u := t.Underlying().(type) {
		case *types.Slice:
			fr.regs[res] = app("s.len", args[0])
		case *types.Basic:
			fr.regs[res] = app("str.len_", args[0])
		case *types.Map:
			r := vc.fresh(fr.prefix+".len", "Int")
			n.assume(sEq(r, sIte(sEq(args[0], "0"), "0", app("select", vc.cur(n.env, vc.mapLenOf(u).Name), args[0]))))
			n.assume(app("<=", "0", r))
			fr.regs[res] = r
		case *types.Array:
			fr.regs[res] = fmt.Sprint(u.Len())
		case *types.Pointer:
			fr.regs[res] = fmt.Sprint(u.Elem().Underlying().(*types.Array).Len())
		case *types.Chan:
			r := vc.fresh(fr.prefix+".len", "Int")
			n.assume(app("<=", "0", r))
			fr.regs[res] = r
		default:
			vc.unsupported("len of %s", t)
		}
	case "cap":
		if _, ok := call.Args[0].Type().Underlying().(*types.Slice); ok {
			fr.regs[res] = app("s.cap", args[0])
		} else {
			r := vc.fresh(fr.prefix+".cap", "Int")
			n.assume(app("<=", "0", r))
			fr.regs[res] = r
		}
	case "min", "max":
		op := "<="
		if b.Name() == "max" {
			op = ">="
		}
		r := args[0]
		for _, a := range args[1:] {
			r = sIte(app(op, r, a), r, a)
		}
		vc.define(fr, n, res, r)
	case "append":
		vc.modelAppend(fr, n, call, res, args)
	case "copy":
		vc.modelCopy(fr, n, call, res, args)
	case "delete":
		mt := call.Args[0].Type().Underlying().(*types.Map)
		dom, _ := vc.mapMaps(mt)
		m, k := args[0], args[1]
		vc.guardCheckMap(fr, n, call.Args[0], true, pos)
		od := vc.cur(n.env, dom.Name)
		ol := vc.cur(n.env, vc.mapLenOf(mt).Name)
		nd := vc.bump(n.env, dom.Name)
		nl := vc.bump(n.env, vc.mapLenOf(mt).Name)
		n.assume(sIte(sEq(m, "0"), sEq(nd, od), sEq(nd, app("store", od, m, app("store", app("select", od, m), k, "false")))))
		n.assume(sEq(nl, sIte(sAnd(sNot(sEq(m, "0")), app("select", app("select", od, m), k)), app("store", ol, m, app("-", app("select", ol, m), "1")), ol)))
	case "close":
		vc.used["close(chan) modelled as no-op (double close not checked)"] = true
	case "print", "println":
	case "recover":
		if res != nil {
			fr.regs[res] = "(mk-iface 0 0)"
		}
	case "panic":
		vc.safety(fr, n, "panic", "false", pos)
	case "clear":
		vc.unsupported("%s: clear builtin", fr.fn)
	case "ssa:wrapnilchk":
		fr.regs[res] = args[0]
	case "ssa:deferstack":
		fr.regs[res] = "0"
	default:
		vc.unsupported("%s: builtin %s", fr.fn, b.Name())
		if res != nil {
			fr.regs[res] = vc.fresh("undef", vc.srt.sortOf(res.Type()))
		}
	}
}

func (vc *VC) modelAppend(fr *Frame, n *Node, call *ssa.CallCommon, res ssa.Value, args []string) {
	st := call.Args[0].Type().Underlying().(*types.Slice)
	elem := st.Elem()
	s := args[0]
	var t, tl, trow, toff string
	if isString(call.Args[1].Type()) {
		tl = app("str.len_", args[1])
	} else {
		t = args[1]
		tl = app("s.len", t)
	}
	m := vc.memMap(elem)
	old := vc.cur(n.env, m.Name)
	if t != "" {
		trow = app("select", old, app("s.arr", t))
		toff = app("s.off", t)
	}
	r := vc.fresh(fr.prefix+".app", "Slice")
	n.assume(vc.srt.typeFact(r, call.Args[0].Type()))
	n.assume(sEq(app("s.len", r), app("+", app("s.len", s), tl)))
	inPlace := app("<=", app("+", app("s.len", s), tl), app("s.cap", s))
	// shape
	arrNew := vc.fresh(fr.prefix+".apparr", "Int")
	n.assume(sAnd(app("<", "0", arrNew), sNot(vc.isAllocated(n.env, arrNew))))
	n.assume(sIte(inPlace,
		sAnd(sEq(app("s.arr", r), app("s.arr", s)), sEq(app("s.off", r), app("s.off", s)), sEq(app("s.cap", r), app("s.cap", s))),
		sAnd(sEq(app("s.arr", r), arrNew), sEq(app("s.off", r), "0"))))
	// appending nothing to nil stays nil
	a := vc.allocVar()
	oa := vc.cur(n.env, a.Name)
	na := vc.bump(n.env, a.Name)
	n.assume(sEq(na, sIte(inPlace, oa, app("store", oa, arrNew, "true"))))
	// contents
	nv := vc.bump(n.env, m.Name)
	row := vc.fresh(fr.prefix+".approw", "(Array Int "+vc.srt.sortOf(elem)+")")
	n.assume(sEq(nv, app("store", old, app("s.arr", r), row)))
	srow := app("select", old, app("s.arr", s))
	if vc.bytesLvl || true {
		// element-level: prefix preserved, suffix copied, (in place) everything outside the written window unchanged
		j := "j"
		pre := fmt.Sprintf("(forall ((j Int)) (! (=> (and (<= 0 j) (< j (s.len %s))) (= (select %s (+ (s.off %s) j)) (select %s (+ (s.off %s) j)))) :pattern ((select %s (+ (s.off %s) j)))))", s, row, r, srow, s, row, r)
		_ = j
		n.assume(pre)
		if t != "" {
			n.assume(fmt.Sprintf("(forall ((j Int)) (! (=> (and (<= 0 j) (< j %s)) (= (select %s (+ (s.off %s) (s.len %s) j)) (select %s (+ %s j)))) :pattern ((select %s (+ (s.off %s) (s.len %s) j)))))", tl, row, r, s, trow, toff, row, r, s))
		}
		n.assume(sImp(inPlace, fmt.Sprintf("(forall ((j Int)) (! (=> (or (< j (+ (s.off %s) (s.len %s))) (>= j (+ (s.off %s) (s.len %s) %s))) (= (select %s j) (select %s j))) :pattern ((select %s j))))", s, s, s, s, tl, row, srow, row)))
	}
	if isByteSlice(call.Args[0].Type()) {
		// in place: windows below the old length keep their content identity; reallocated: the prefix is a copy
		n.assume(sImp(inPlace, fmt.Sprintf("(forall ((o Int) (l Int)) (! (=> (<= (+ o l) (+ (s.off %s) (s.len %s))) (= (bs_ %s o l) (bs_ %s o l))) :pattern ((bs_ %s o l))))", s, s, row, srow, row)))
		n.assume(sImp(sNot(inPlace), fmt.Sprintf("(forall ((o Int) (l Int)) (! (=> (and (<= 0 o) (<= (+ o l) (s.len %s))) (= (bs_ %s o l) (bs_ %s (+ (s.off %s) o) l))) :pattern ((bs_ %s o l))))", s, row, srow, s, row)))
	}
	if isByteSlice(call.Args[0].Type()) && t != "" {
		// abstract level: appending to an empty slice yields the argument's content
		vc.declareFun("bs_", []string{"(Array Int Int)", "Int", "Int"}, "Int")
		vc.declareFun("blen_", []string{"Int"}, "Int")
		n.assume(sImp(sEq(app("s.len", s), "0"), sEq(app("bs_", row, app("s.off", r), app("s.len", r)), app("bs_", trow, toff, tl))))
		vc.declareFun("bcat_", []string{"Int", "Int"}, "Int")
		n.assume(sEq(app("bs_", row, app("s.off", r), app("s.len", r)), app("bcat_", app("bs_", srow, app("s.off", s), app("s.len", s)), app("bs_", trow, toff, tl))))
	}
	fr.regs[res] = r
}

func (vc *VC) modelCopy(fr *Frame, n *Node, call *ssa.CallCommon, res ssa.Value, args []string) {
	st := call.Args[0].Type().Underlying().(*types.Slice)
	elem := st.Elem()
	d := args[0]
	m := vc.memMap(elem)
	old := vc.cur(n.env, m.Name)
	var sl, srow, soff string
	if isString(call.Args[1].Type()) {
		sl = app("str.len_", args[1])
	} else {
		sl = app("s.len", args[1])
		srow = app("select", old, app("s.arr", args[1]))
		soff = app("s.off", args[1])
	}
	cnt := vc.fresh(fr.prefix+".copyn", "Int")
	n.assume(sEq(cnt, sIte(app("<=", app("s.len", d), sl), app("s.len", d), sl)))
	nv := vc.bump(n.env, m.Name)
	row := vc.fresh(fr.prefix+".cprow", "(Array Int "+vc.srt.sortOf(elem)+")")
	drow := app("select", old, app("s.arr", d))
	n.assume(sEq(nv, sIte(sEq(cnt, "0"), old, app("store", old, app("s.arr", d), row))))
	if srow != "" {
		n.assume(fmt.Sprintf("(forall ((j Int)) (! (=> (and (<= 0 j) (< j %s)) (= (select %s (+ (s.off %s) j)) (select %s (+ %s j)))) :pattern ((select %s (+ (s.off %s) j)))))", cnt, row, d, srow, soff, row, d))
	}
	n.assume(fmt.Sprintf("(forall ((j Int)) (! (=> (or (< j (s.off %s)) (>= j (+ (s.off %s) %s))) (= (select %s j) (select %s j))) :pattern ((select %s j))))", d, d, cnt, row, drow, row))
	if isByteSlice(call.Args[0].Type()) && srow != "" {
		vc.declareFun("bs_", []string{"(Array Int Int)", "Int", "Int"}, "Int")
		n.assume(sEq(app("bs_", row, app("s.off", d), cnt), app("bs_", srow, soff, cnt)))
	}
	if isByteSlice(call.Args[0].Type()) {
		vc.bsFrame(n, row, drow, app("s.off", d), app("+", app("s.off", d), cnt))
	}
	if res != nil {
		fr.regs[res] = cnt
	}
}

// ---------------------------------------------------------------- library functions

func (vc *VC) lockMapOf(fr *Frame, n *Node, v ssa.Value) *LVal {
	lv := vc.addrOf(fr, n, v)
	if lv == nil || (lv.kind != lvHeap && lv.kind != lvLocal && lv.kind != lvGlobal && lv.kind != lvCell) {
		return nil
	}
	return lv
}

func fmtVerbIndexOfW(format string) int {
	idx := 0
	for i := 0; i < len(format); i++ {
		if format[i] != '%' {
			continue
		}
		i++
		if i >= len(format) {
			break
		}
		if format[i] == '%' {
			continue
		}
		for i < len(format) && strings.ContainsRune("+-# 0123456789.*[]", rune(format[i])) {
			i++
		}
		if i < len(format) && format[i] == 'w' {
			return idx
		}
		idx++
	}
	return -1
}

func (vc *VC) newError(n *Node, hint string) string {
	r := vc.newRef(n, "err."+hint)
	tag := vc.typeTagNamed("*errors.errorString")
	vc.declareFun("isptrtag_", []string{"Int"}, "Bool")
	vc.addAxiom(app("isptrtag_", fmt.Sprint(tag)))
	return app("mk-iface", fmt.Sprint(tag), r)
}

func (vc *VC) typeTagNamed(s string) int {
	if id, ok := vc.typeTags[s]; ok {
		return id
	}
	id := len(vc.typeTags) + 1
	vc.typeTags[s] = id
	vc.tagTypes = append(vc.tagTypes, types.Typ[types.Invalid])
	return id
}

func (vc *VC) unwrapFn() string {
	if !vc.declared["unwrap_"] {
		vc.declareFun("unwrap_", []string{"Int"}, "Iface")
		// the nil error wraps nothing (an ended %w chain stays ended)
		vc.addAxiom("(= (unwrap_ 0) (mk-iface 0 0))")
	}
	return "unwrap_"
}

// errorsIs: err == target or reachable through at most three %w links.
func (vc *VC) errorsIs(e, target string) string {
	u := vc.unwrapFn()
	e1 := app(u, app("i.val", e))
	e2 := app(u, app("i.val", e1))
	e3 := app(u, app("i.val", e2))
	return sAnd(sNot(sEq(app("i.tag", e), "0")), sOr(sEq(e, target), sEq(e1, target), sEq(e2, target), sEq(e3, target)))
}

func constString(v ssa.Value) (string, bool) {
	if c, ok := v.(*ssa.Const); ok && c.Value != nil && c.Value.Kind() == constant.String {
		return constant.StringVal(c.Value), true
	}
	return "", false
}

// varargElems returns the terms of the elements of a variadic []interface{} argument built in place.
func (vc *VC) varargElems(fr *Frame, n *Node, v ssa.Value) ([]string, bool) {
	sl, ok := v.(*ssa.Slice)
	if !ok {
		if c, isC := v.(*ssa.Const); isC && c.Value == nil {
			return nil, true
		}
		return nil, false
	}
	a, ok := sl.X.(*ssa.Alloc)
	if !ok {
		return nil, false
	}
	at, ok := a.Type().(*types.Pointer).Elem().Underlying().(*types.Array)
	if !ok {
		return nil, false
	}
	lv := fr.lvs[a]
	if lv == nil {
		return nil, false
	}
	m := vc.memMap(at.Elem())
	var out []string
	for i := int64(0); i < at.Len(); i++ {
		out = append(out, app("select", app("select", vc.cur(n.env, m.Name), lv.ref), fmt.Sprint(i)))
	}
	return out, true
}

func (vc *VC) libCall(fr *Frame, n *Node, callee *ssa.Function, call *ssa.CallCommon, res ssa.Value, args []string, pos token.Pos) {
	name := callee.String()
	if o := callee.Origin(); o != nil {
		name = o.String()
	}
	vc.usedLib[name] = true
	set := func(t string) {
		if res != nil {
			vc.define(fr, n, res, t)
		}
	}
	switch {
	// ---------------- sync
	case name == "(*sync.Mutex).Lock" || name == "(*sync.RWMutex).Lock":
		vc.lockOp(fr, n, call.Args[0], "lock", pos)
		return
	case name == "(*sync.Mutex).Unlock" || name == "(*sync.RWMutex).Unlock":
		vc.lockOp(fr, n, call.Args[0], "unlock", pos)
		return
	case name == "(*sync.RWMutex).RLock":
		vc.lockOp(fr, n, call.Args[0], "rlock", pos)
		return
	case name == "(*sync.RWMutex).RUnlock":
		vc.lockOp(fr, n, call.Args[0], "runlock", pos)
		return
	case name == "(*sync.Mutex).TryLock" || name == "(*sync.RWMutex).TryLock" || name == "(*sync.RWMutex).TryRLock":
		vc.unsupported("%s: TryLock", fr.fn)
	case strings.HasPrefix(name, "(*sync.WaitGroup)."), strings.HasPrefix(name, "(*sync.Once)."), strings.HasPrefix(name, "(*sync.Pool)."), strings.HasPrefix(name, "(*sync.Cond)."):
		if name == "(*sync.Once).Do" {
			// the function may or may not run; model: runs (effects by its frame) nondeterministically
			if ci, ok := fr.clos[call.Args[1]]; ok {
				ms := vc.p.autoMods[ci.fn]
				if ms != nil && !ms.Top {
					vc.havocMaps(n, ms.sorted())
				} else {
					vc.havocAll(fr, n, "sync.Once.Do")
				}
			} else {
				vc.havocAll(fr, n, "sync.Once.Do with unknown function")
			}
		}
		vc.used["sync."+strings.TrimPrefix(name, "(*sync.")+": no effect on modelled state"] = true
		if res != nil {
			vc.bindResult(fr, n, res, vc.havocResults(fr, n, callee.Signature, "lib"))
		}
		return
	// ---------------- sync/atomic free functions
	case strings.HasPrefix(name, "sync/atomic.Load"):
		lv := vc.addrOf(fr, n, call.Args[0])
		if lv == nil {
			break
		}
		vc.atomicAccess(fr, n, lv, false, pos)
		set(vc.load(n.env, lv))
		if res != nil {
			n.assume(vc.valueFact(n.env, fr.regs[res], res.Type()))
		}
		return
	case strings.HasPrefix(name, "sync/atomic.Store"):
		lv := vc.addrOf(fr, n, call.Args[0])
		if lv == nil {
			break
		}
		vc.atomicAccess(fr, n, lv, true, pos)
		vc.store(n, lv, args[1])
		vc.publication(fr, n, pos)
		return
	case strings.HasPrefix(name, "sync/atomic.Add"):
		lv := vc.addrOf(fr, n, call.Args[0])
		if lv == nil {
			break
		}
		vc.atomicAccess(fr, n, lv, true, pos)
		nv := vc.wrap(app("+", vc.load(n.env, lv), args[1]), lv.typ)
		c := vc.fresh(fr.prefix+".atomadd", "Int")
		n.assume(sEq(c, nv))
		vc.store(n, lv, c)
		set(c)
		return
	case strings.HasPrefix(name, "sync/atomic.Swap"):
		lv := vc.addrOf(fr, n, call.Args[0])
		if lv == nil {
			break
		}
		vc.atomicAccess(fr, n, lv, true, pos)
		old := vc.load(n.env, lv)
		c := vc.fresh(fr.prefix+".swapold", vc.srt.sortOf(lv.typ))
		n.assume(sEq(c, old))
		vc.store(n, lv, args[1])
		set(c)
		return
	case strings.HasPrefix(name, "sync/atomic.CompareAndSwap"):
		lv := vc.addrOf(fr, n, call.Args[0])
		if lv == nil {
			break
		}
		vc.atomicAccess(fr, n, lv, true, pos)
		old := vc.load(n.env, lv)
		okc := vc.fresh(fr.prefix+".cas", "Bool")
		n.assume(sEq(okc, sEq(old, args[1])))
		vc.store(n, lv, sIte(okc, args[2], old))
		set(okc)
		vc.publication(fr, n, pos)
		return
	// ---------------- sync/atomic typed values
	case strings.HasPrefix(name, "(*sync/atomic."):
		lv := vc.addrOf(fr, n, call.Args[0])
		if lv == nil {
			break
		}
		meth := name[strings.LastIndex(name, ".")+1:]
		switch meth {
		case "Load":
			vc.atomicAccess(fr, n, lv, false, pos)
			v := vc.load(n.env, lv)
			set(v)
			if res != nil {
				n.assume(vc.valueFact(n.env, fr.regs[res], res.Type()))
			}
			return
		case "Store":
			vc.atomicAccess(fr, n, lv, true, pos)
			vc.store(n, lv, args[1])
			vc.publication(fr, n, pos)
			return
		case "Swap":
			vc.atomicAccess(fr, n, lv, true, pos)
			c := vc.fresh(fr.prefix+".swapold", vc.srt.sortOf(lv.typ))
			n.assume(sEq(c, vc.load(n.env, lv)))
			vc.store(n, lv, args[1])
			set(c)
			vc.publication(fr, n, pos)
			return
		case "CompareAndSwap":
			vc.atomicAccess(fr, n, lv, true, pos)
			old := vc.load(n.env, lv)
			okc := vc.fresh(fr.prefix+".cas", "Bool")
			n.assume(sEq(okc, sEq(old, args[1])))
			vc.store(n, lv, sIte(okc, args[2], old))
			set(okc)
			vc.publication(fr, n, pos)
			return
		case "Add":
			vc.atomicAccess(fr, n, lv, true, pos)
			var rt types.Type = types.Typ[types.Int64]
			if res != nil {
				rt = res.Type()
			}
			c := vc.fresh(fr.prefix+".atomadd", "Int")
			n.assume(sEq(c, vc.wrap(app("+", vc.load(n.env, lv), args[1]), rt)))
			vc.store(n, lv, c)
			set(c)
			return
		}
	// ---------------- errors / fmt
	case name == "errors.New":
		set(vc.newError(n, "new"))
		return
	case name == "fmt.Errorf":
		e := vc.newError(n, "errorf")
		c := vc.fresh(fr.prefix+".errorf", "Iface")
		n.assume(sEq(c, e))
		if f, ok := constString(call.Args[0]); ok {
			if wi := fmtVerbIndexOfW(f); wi >= 0 {
				if elems, ok := vc.varargElems(fr, n, call.Args[1]); ok && wi < len(elems) {
					n.assume(sEq(app(vc.unwrapFn(), app("i.val", c)), elems[wi]))
				}
			} else {
				n.assume(sEq(app(vc.unwrapFn(), app("i.val", c)), "(mk-iface 0 0)"))
			}
			vc.errText(n, c, f, fr, call)
		}
		if res != nil {
			fr.regs[res] = c
		}
		return
	case name == "errors.Is":
		set(vc.errorsIs(args[0], args[1]))
		return
	case name == "errors.Unwrap":
		set(app(vc.unwrapFn(), app("i.val", args[0])))
		return
	case name == "fmt.Sprintf", name == "fmt.Sprint", name == "fmt.Sprintln":
		r := vc.fresh(fr.prefix+".sprintf", "Int")
		n.assume(vc.srt.typeFact(r, types.Typ[types.String]))
		if name == "fmt.Sprintf" {
			if f, ok := constString(call.Args[0]); ok {
				rec := sprintfRec{term: r, format: f}
				if elems, ok := vc.varargElems(fr, n, call.Args[1]); ok {
					rec.args = elems
				}
				vc.sprintfs = append(vc.sprintfs, rec)
				if lit, _ := splitFormat(f); strings.Trim(lit, "\x00") != "" {
					n.assume(sNot(sEq(r, "0")))
				}
			}
		}
		set(r)
		return
	case name == "fmt.Printf", name == "fmt.Println", name == "fmt.Print", name == "fmt.Fprintf", name == "fmt.Fprintln", name == "fmt.Fprint":
		if res != nil {
			vc.bindResult(fr, n, res, vc.havocResults(fr, n, callee.Signature, "print"))
		}
		return
	// ---------------- bytes
	case name == "bytes.Equal":
		a, b := vc.bstrUse(n, args[0], n.env), vc.bstrUse(n, args[1], n.env)
		set(sAnd(sEq(app("s.len", args[0]), app("s.len", args[1])), sEq(a, b)))
		return
	case name == "bytes.Compare":
		a, b := vc.bstrUse(n, args[0], n.env), vc.bstrUse(n, args[1], n.env)
		vc.needOrder()
		r := vc.fresh(fr.prefix+".cmp", "Int")
		n.assume(sEq(r, app("bcmp_", a, b)))
		set(r)
		return
	case name == "bytes.HasPrefix":
		a, b := vc.bstrUse(n, args[0], n.env), vc.bstrUse(n, args[1], n.env)
		vc.declareFun("bprefix_", []string{"Int", "Int"}, "Bool")
		r := vc.fresh(fr.prefix+".hp", "Bool")
		n.assume(sEq(r, app("bprefix_", a, b)))
		n.assume(sImp(r, app("<=", app("s.len", args[1]), app("s.len", args[0]))))
		n.assume(sImp(sEq(app("s.len", args[1]), "0"), r))
		set(r)
		return
	case name == "bytes.HasSuffix":
		a, b := vc.bstrUse(n, args[0], n.env), vc.bstrUse(n, args[1], n.env)
		vc.declareFun("bsuffix_", []string{"Int", "Int"}, "Bool")
		r := vc.fresh(fr.prefix+".hs", "Bool")
		n.assume(sEq(r, app("bsuffix_", a, b)))
		n.assume(sImp(r, app("<=", app("s.len", args[1]), app("s.len", args[0]))))
		n.assume(sImp(sEq(app("s.len", args[1]), "0"), r))
		set(r)
		return
	// ---------------- encoding/binary
	case strings.HasPrefix(name, "(encoding/binary.littleEndian).Put") || strings.HasPrefix(name, "(encoding/binary.bigEndian).Put"):
		nb := map[string]int{"PutUint16": 2, "PutUint32": 4, "PutUint64": 8}[name[strings.LastIndex(name, ".")+1:]]
		if nb == 0 {
			break
		}
		big := strings.Contains(name, "bigEndian")
		b, v := args[1], args[2]
		vc.safety(fr, n, "index", app("<=", fmt.Sprint(nb), app("s.len", b)), pos)
		m := vc.byteMem()
		old := vc.cur(n.env, m.Name)
		row := app("select", old, app("s.arr", b))
		// the base-256 digits of v as fresh bytes: v = sum digit_i * 256^i is linear, where (v div 256^i) mod 256 is not
		var sum []string
		for i := 0; i < nb; i++ {
			sh := i
			if big {
				sh = nb - 1 - i
			}
			byteV := vc.fresh(fr.prefix+".digit", "Int")
			n.assume(sAnd(app("<=", "0", byteV), app("<", byteV, "256")))
			sum = append(sum, app("*", bigInt{}.pow2(8*sh), byteV))
			row = app("store", row, app("+", app("s.off", b), fmt.Sprint(i)), byteV)
		}
		n.assume(sImp(sAnd(app("<=", "0", v), app("<", v, bigInt{}.pow2(8*nb))), sEq(v, app("+", sum...))))
		nv := vc.bump(n.env, m.Name)
		n.assume(sEq(nv, app("store", old, app("s.arr", b), row)))
		vc.bsFrame(n, app("select", nv, app("s.arr", b)), app("select", old, app("s.arr", b)), app("s.off", b), app("+", app("s.off", b), fmt.Sprint(nb)))
		return
	case strings.HasPrefix(name, "(encoding/binary.littleEndian).Uint") || strings.HasPrefix(name, "(encoding/binary.bigEndian).Uint"):
		nb := map[string]int{"Uint16": 2, "Uint32": 4, "Uint64": 8}[name[strings.LastIndex(name, ".")+1:]]
		if nb == 0 {
			break
		}
		big := strings.Contains(name, "bigEndian")
		b := args[1]
		vc.safety(fr, n, "index", app("<=", fmt.Sprint(nb), app("s.len", b)), pos)
		m := vc.byteMem()
		row := app("select", vc.cur(n.env, m.Name), app("s.arr", b))
		var terms []string
		for i := 0; i < nb; i++ {
			sh := i
			if big {
				sh = nb - 1 - i
			}
			bt := app("select", row, app("+", app("s.off", b), fmt.Sprint(i)))
			n.assume(sAnd(app("<=", "0", bt), app("<", bt, "256")))
			terms = append(terms, app("*", bigInt{}.pow2(8*sh), bt))
		}
		r := vc.fresh(fr.prefix+".le", "Int")
		n.assume(sEq(r, app("+", terms...)))
		set(r)
		return
	// ---------------- hashes
	case name == "hash/crc32.ChecksumIEEE":
		vc.declareFun("crc32_", []string{"Int"}, "Int")
		r := vc.fresh(fr.prefix+".crc", "Int")
		n.assume(sEq(r, app("crc32_", vc.bstrUse(n, args[0], n.env))))
		n.assume(vc.srt.typeFact(r, types.Typ[types.Uint32]))
		set(r)
		return
	case name == "github.com/cespare/xxhash/v2.Sum64":
		vc.declareFun("xxhash_", []string{"Int"}, "Int")
		r := vc.fresh(fr.prefix+".xxh", "Int")
		n.assume(sEq(r, app("xxhash_", vc.bstrUse(n, args[0], n.env))))
		n.assume(vc.srt.typeFact(r, types.Typ[types.Uint64]))
		set(r)
		return
	// ---------------- time
	case name == "time.Sleep":
		return
	case name == "time.Now", name == "time.Since", name == "(time.Time).UnixNano", name == "(time.Time).Sub", name == "(time.Time).Unix", name == "(time.Time).Format", name == "(time.Duration).String", name == "(time.Time).After", name == "(time.Time).Before", name == "(time.Time).Add", name == "(time.Duration).Seconds", name == "(time.Duration).Milliseconds", name == "(time.Time).IsZero", name == "time.Duration.Nanoseconds", name == "(time.Duration).Nanoseconds":
		if res != nil {
			vc.bindResult(fr, n, res, vc.havocResults(fr, n, callee.Signature, "time"))
		}
		return
	case name == "math.IsNaN":
		set(app("fp.isNaN", args[0]))
		return
	case name == "math.IsInf":
		set(sIte(app(">", args[1], "0"), sAnd(app("fp.isInfinite", args[0]), app("fp.isPositive", args[0])),
			sIte(app("<", args[1], "0"), sAnd(app("fp.isInfinite", args[0]), app("fp.isNegative", args[0])), app("fp.isInfinite", args[0]))))
		return
	case name == "strings.Contains":
		if needle, ok := constString(call.Args[1]); ok {
			// error-text classification: needle ghost of the string
			fnm := "contains$" + needle
			vc.declareFun(fnm, []string{"Int"}, "Bool")
			set(app(smtName(fnm), args[0]))
			return
		}
	case name == "strings.HasSuffix":
		if needle, ok := constString(call.Args[1]); ok {
			set(vc.suffixTerm(needle, args[0]))
			return
		}
	case name == "(*errors.errorString).Error":
	}
	if vc.libContractCall(fr, n, name, callee, call, res, args, pos) {
		return
	}
	// default: library function assumed to leave modelled repository state unchanged, except memory passed by slice
	vc.used["lib default (no effect on repository state, arbitrary result): "+name] = true
	for i, a := range call.Args {
		if st, ok := a.Type().Underlying().(*types.Slice); ok && libMayWriteSlice(name) {
			m := vc.memMap(st.Elem())
			old := vc.cur(n.env, m.Name)
			nv := vc.bump(n.env, m.Name)
			row := vc.fresh("librow", "(Array Int "+vc.srt.sortOf(st.Elem())+")")
			n.assume(sEq(nv, app("store", old, app("s.arr", args[i]), row)))
			n.assume(fmt.Sprintf("(forall ((j Int)) (! (=> (or (< j (s.off %s)) (>= j (+ (s.off %s) (s.len %s)))) (= (select %s j) (select (select %s (s.arr %s)) j))) :pattern ((select %s j))))", args[i], args[i], args[i], row, old, args[i], row))
		}
	}
	// closures passed to library functions may be invoked: apply their frames
	for _, a := range call.Args {
		if ci, ok := fr.clos[a]; ok {
			ms := vc.p.autoMods[ci.fn]
			if ms == nil || ms.Top {
				vc.havocAll(fr, n, "closure passed to "+name)
			} else {
				vc.havocMaps(n, ms.sorted())
			}
		} else if _, isSig := a.Type().Underlying().(*types.Signature); isSig {
			if _, isFn := a.(*ssa.Function); !isFn {
				vc.havocAll(fr, n, "function value passed to "+name)
			}
		}
	}
	if res != nil {
		vc.bindResult(fr, n, res, vc.havocResults(fr, n, callee.Signature, "lib"))
	}
}

// errText: ghost needles for error-text classification (`strings.Contains(err.Error(), "corrupt")`).
func (vc *VC) errText(n *Node, e string, format string, fr *Frame, call *ssa.CallCommon) {
	ef := errFmt{term: e, format: format}
	if len(call.Args) > 1 {
		if elems, ok := vc.varargElems(fr, n, call.Args[1]); ok {
			ef.args = elems
		}
	}
	vc.errFormats = append(vc.errFormats, ef)
}

type errFmt struct {
	term, format string
	args         []string
}

func (vc *VC) needOrder() {
	if vc.declared["bcmp_"] {
		return
	}
	// The byte-string order is an arbitrary total order on content identities.  Every countable total order embeds
	// order-preservingly into the rationals, so it is represented by an uninterpreted injective rank ord_ : id -> Real;
	// only order properties are borrowed from the reals (density makes no discreteness fact available).
	vc.declared["bcmp_"] = true
	vc.declared["blt_"] = true
	vc.decls = append(vc.decls, "(declare-fun ord_ (Int) Real)")
	vc.decls = append(vc.decls, "(define-fun bcmp_ ((a Int) (b Int)) Int (ite (< (ord_ a) (ord_ b)) (- 1) (ite (= (ord_ a) (ord_ b)) 0 1)))")
	vc.decls = append(vc.decls, "(define-fun blt_ ((a Int) (b Int)) Bool (< (ord_ a) (ord_ b)))")
	vc.used["byte-string order: uninterpreted injective rank into the rationals (any total order on content identities)"] = true
	vc.addAxiom("(forall ((a Int) (b Int)) (! (=> (= (ord_ a) (ord_ b)) (= a b)) :pattern ((ord_ a) (ord_ b))))")
}

// libInvoke: interface methods of library interfaces with built-in models.
func (vc *VC) libInvoke(fr *Frame, n *Node, key string, call *ssa.CallCommon, res ssa.Value, recv string, args []string, pos token.Pos) bool {
	switch key {
	case "error.Error":
		vc.declareFun("errtext_", []string{"Iface"}, "Int")
		r := vc.fresh(fr.prefix+".errtext", "Int")
		n.assume(sEq(r, app("errtext_", recv)))
		fr.regs[res] = r
		return true
	}
	if fc, ok := vc.p.libs[key]; ok {
		vc.callIfaceContract(fr, n, fc, call, res, recv, args, pos, key)
		return true
	}
	return false
}

// libContractCall: library function with a contract in /verif/specs/*.kvs.
func (vc *VC) libContractCall(fr *Frame, n *Node, name string, callee *ssa.Function, call *ssa.CallCommon, res ssa.Value, args []string, pos token.Pos) bool {
	fc, ok := vc.p.libs[name]
	if !ok {
		return false
	}
	vc.used["library contract (assumed): "+name] = true
	names := map[string]Val{}
	for i, p := range callee.Params {
		nm := p.Name()
		if i < len(fc.Params) {
			nm = fc.Params[i].Name
		}
		if i < len(args) {
			names[nm] = Val{T: args[i], Ty: p.Type()}
		}
	}
	pre := n.env.clone()
	sc := &SpecCtx{vc: vc, fr: fr, node: n, env: n.env, old: pre, names: names}
	fr.callOrd[name]++
	ord := fr.callOrd[name]
	fr.ghostArgs = map[string]Val{}
	for k, v := range names {
		fr.ghostArgs[k] = v
	}
	vc.ghostAt(fr, n, "before", name, ord)
	defer func() { vc.ghostAt(fr, n, "after", name, ord, res) }()
	j := 0
	for _, c := range fc.Clauses {
		if c.Kind != "requires" {
			continue
		}
		j++
		f, err := sc.formula(c.E)
		if err != nil {
			vc.specError(c, err)
			continue
		}
		ob := vc.newObl(fmt.Sprintf("%s/call %s#%d/pre/%d", relKey(fr.fn), name, ord, j), "pre", c.Tags, c.Text, pos)
		vc.assertAt(n, f, ob)
	}
	for _, c := range fc.Clauses {
		if c.Kind == "modifies" {
			for _, loc := range splitTopLevel(c.Text) {
				if err := vc.havocLoc(sc, n, loc); err != nil {
					vc.specError(c, err)
				}
			}
		}
	}
	results := vc.havocResults(fr, n, callee.Signature, "lib")
	vc.bindResult(fr, n, res, results)
	sc2 := &SpecCtx{vc: vc, fr: fr, node: n, env: n.env, old: pre, names: names}
	vc.bindResultNames(sc2, callee, results)
	for _, c := range fc.Clauses {
		if c.Kind != "ensures" {
			continue
		}
		f, err := sc2.formula(c.E)
		if err != nil {
			vc.specError(c, err)
			continue
		}
		n.assume(f)
	}
	return true
}
