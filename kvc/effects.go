package main

// Effect contracts (C15): `nonblocking` functions must not be able to stall on a peer.
//
//   blocks(f)      f contains a blocking primitive (channel send/receive, blocking select, WaitGroup/Cond wait, an
//                  operation declared `blocks` in /verif/specs: network stream send) or calls - statically, through an
//                  interface (class hierarchy analysis over the repository) or through a function value (closed world)
//                  - a function that blocks                                                   [computeAutoMods: Blocks]
//   bad(L)         some function holds mutex L (lockset dataflow over its SSA blocks; deferred unlocks hold to the end)
//                  while calling something that may stall
//   mayStall(f)    blocks(f), or f acquires (itself or through callees) a bad mutex
// The two notions are a least fixpoint.  A function under a `nonblocking[Cxx]` contract is an obligation !mayStall(f);
// a failure reports the chain.  Waiting for a mutex whose critical sections cannot stall is not a stall.

import (
	"fmt"
	"os"
	"go/types"
	"sort"
	"strings"

	"golang.org/x/tools/go/ssa"
)

type stallInfo struct {
	why string
}

// mutexOf: "T.field" for Lock/RLock/Unlock/RUnlock calls on a struct field mutex, "" otherwise.
func mutexOf(c *ssa.CallCommon) (id string, op string) {
	sc := c.StaticCallee()
	if sc == nil || len(c.Args) == 0 {
		return "", ""
	}
	n := sc.String()
	if !strings.HasPrefix(n, "(*sync.Mutex).") && !strings.HasPrefix(n, "(*sync.RWMutex).") {
		return "", ""
	}
	op = n[strings.LastIndex(n, ".")+1:]
	if fa, ok := c.Args[0].(*ssa.FieldAddr); ok {
		st := fa.X.Type().Underlying().(*types.Pointer).Elem()
		f := st.Underlying().(*types.Struct).Field(fa.Field)
		return typeName(st) + "." + f.Name(), op
	}
	return "?", op
}

func (p *Prog) computeStalls() {
	if p.stall != nil {
		return
	}
	p.stall = map[*ssa.Function]*stallInfo{}
	p.badLock = map[string]string{}
	for _, fn := range p.allFuncs {
		if ms := p.autoMods[fn]; ms != nil && ms.Blocks {
			p.stall[fn] = &stallInfo{why: ms.BlockWhy}
		}
	}
	// per function: locks acquired directly, and (lockset at call sites) pairs (held lock, callee)
	type heldCall struct {
		lock   string
		callee *ssa.Function
		direct string // blocking primitive in this very function
	}
	acquires := map[*ssa.Function]map[string]bool{}
	var held []struct {
		fn *ssa.Function
		hc heldCall
	}
	for _, fn := range p.allFuncs {
		if len(fn.Blocks) == 0 {
			continue
		}
		acq := map[string]bool{}
		in := map[*ssa.BasicBlock]map[string]bool{}
		in[fn.Blocks[0]] = map[string]bool{}
		work := []*ssa.BasicBlock{fn.Blocks[0]}
		visited := map[*ssa.BasicBlock]int{}
		for len(work) > 0 {
			b := work[0]
			work = work[1:]
			visited[b]++
			if visited[b] > 50 {
				continue
			}
			cur := map[string]bool{}
			for k := range in[b] {
				cur[k] = true
			}
			for _, ins := range b.Instrs {
				note := func(callee *ssa.Function, direct string) {
					for l := range cur {
						held = append(held, struct {
							fn *ssa.Function
							hc heldCall
						}{fn, heldCall{l, callee, direct}})
					}
				}
				switch ins := ins.(type) {
				case *ssa.Send:
					note(nil, "channel send")
				case *ssa.Select:
					if ins.Blocking {
						note(nil, "blocking select")
					}
				case *ssa.UnOp:
					if ins.Op.String() == "<-" {
						note(nil, "channel receive")
					}
				case *ssa.Defer:
					// deferred unlocks release at return: the lock stays in the set
				case ssa.CallInstruction:
					c := ins.Common()
					if id, op := mutexOf(c); id != "" {
						switch op {
						case "Lock", "RLock":
							acq[id] = true
							cur[id] = true
						case "Unlock", "RUnlock":
							delete(cur, id)
						}
						continue
					}
					if sc := c.StaticCallee(); sc != nil {
						if why, ok := blockingLib[sc.String()]; ok {
							note(nil, why)
						}
					} else if c.IsInvoke() {
						if why, ok := blockingIface[typeName(c.Value.Type())+"."+c.Method.Name()]; ok {
							note(nil, why)
						}
					}
					for _, callee := range p.calleesOf(fn, ins) {
						note(callee, "")
					}
				}
			}
			for _, s := range b.Succs {
				changed := false
				if in[s] == nil {
					in[s] = map[string]bool{}
					changed = true
				}
				for k := range cur {
					if !in[s][k] {
						in[s][k] = true
						changed = true
					}
				}
				if changed {
					work = append(work, s)
				}
			}
		}
		acquires[fn] = acq
	}
	// fixpoint
	for changed := true; changed; {
		changed = false
		for _, h := range held {
			if _, bad := p.badLock[h.hc.lock]; bad {
				continue
			}
			if h.hc.direct != "" {
				p.badLock[h.hc.lock] = fmt.Sprintf("%s holds it across %s", relKey(h.fn), h.hc.direct)
				changed = true
			} else if si := p.stall[h.hc.callee]; si != nil {
				p.badLock[h.hc.lock] = fmt.Sprintf("%s holds it while calling %s (%s)", relKey(h.fn), relKey(h.hc.callee), truncate(si.why, 300))
				changed = true
			}
		}
		for _, fn := range p.allFuncs {
			if p.stall[fn] != nil {
				continue
			}
			var locks []string
			for l := range acquires[fn] {
				locks = append(locks, l)
			}
			sort.Strings(locks)
			for _, l := range locks {
				if why, bad := p.badLock[l]; bad {
					p.stall[fn] = &stallInfo{why: "waits for " + l + ": " + why}
					changed = true
					break
				}
			}
			if p.stall[fn] != nil {
				continue
			}
			for _, callee := range p.callees(fn) {
				if si := p.stall[callee]; si != nil {
					p.stall[fn] = &stallInfo{why: relKey(callee) + " -> " + si.why}
					changed = true
					break
				}
			}
		}
	}
}

// calleesOf: possible targets of one call instruction (static, CHA for interface calls, closed world for values).
func (p *Prog) calleesOf(fn *ssa.Function, ci ssa.CallInstruction) []*ssa.Function {
	c := ci.Common()
	if sc := c.StaticCallee(); sc != nil {
		if _, ok := p.autoMods[sc]; ok {
			return []*ssa.Function{sc}
		}
		return nil
	}
	if c.IsInvoke() {
		return p.chaTargets(c)
	}
	return p.funcValueTargets(c.Signature())
}

// checkNonblocking: one obligation per function carrying `nonblocking[prop]`.
func (p *Prog) checkNonblocking(prop string) []RuleResult {
	var out []RuleResult
	var fns []*ssa.Function
	for fn, fc := range p.contracts {
		if fc.Nonblock && hasTag(fc.NonblockTags, prop) {
			fns = append(fns, fn)
		}
	}
	if len(fns) == 0 {
		return nil
	}
	p.computeStalls()
	if d := os.Getenv("KVC_DEBUG_EFFECTS"); d != "" {
		p.debugInvokes(d)
	}
	sort.Slice(fns, func(i, j int) bool { return fullKey(fns[i]) < fullKey(fns[j]) })
	for _, fn := range fns {
		fc := p.contracts[fn]
		r := &Rule{Pkg: fc.Pkg, Text: "nonblocking " + fc.Key, File: fc.File, Line: fc.Line}
		rr := RuleResult{Name: fc.Key + "/nonblocking", OK: true, Rule: r}
		if si := p.stall[fn]; si != nil {
			rr.OK = false
			rr.Detail = "may stall: " + si.why
		}
		out = append(out, rr)
	}
	return out
}
