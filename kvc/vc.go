package main

// VC container: state variables with versions (passive form), nodes/edges, obligations,
// block equations and query emission.

import (
	"fmt"
	"go/token"

	"golang.org/x/tools/go/ssa"
	"go/types"
	"sort"
	"strings"
)

type SVar struct {
	Name string
	Sort string
	Ty   types.Type // Go type for local cells (nil for heap maps)
	n    int
}

type Env map[string]int

func (e Env) clone() Env {
	c := make(Env, len(e)+4)
	for k, v := range e {
		c[k] = v
	}
	return c
}

type Obligation struct {
	Name  string
	Kind  string // post pre inv-init inv-pres safety frame lock guard assert lemma smoke
	Tags  []string
	Sel   string
	Text  string
	Pos   string
	Func  string
	Smoke bool // vacuity probe: must NOT be provable
	Loc   string // node/edge the assertion sits on (obligations of one location are first tried in one query)
}

type Cmd struct {
	Assert bool
	F      string
	Ob     *Obligation
}

type Node struct {
	id    int
	name  string
	cmds  []Cmd
	out   []*Edge
	env   Env // current env while building; final = out env
	inEnv Env
	dead  bool
}

type Edge struct {
	from, to *Node
	cond     string
	asserts  []Cmd // evaluated in from.env under cond
	eqs      []string
}

type VC struct {
	p        *Prog
	srt      *sorter
	decls    []string
	declared map[string]bool
	svars    map[string]*SVar
	nodes    []*Node
	obls     []*Obligation
	oblNames map[string]int
	counters map[string]int
	strIDs   map[string]int
	strList  []string
	axioms   []string
	used     map[string]bool // assumed library specs / abstractions used
	unsup    []string        // constructs outside the subset met during translation
	loopMods map[string]map[string]bool
	modsOut  map[string]map[string]bool
	frameSeq int
	rootKey  string
	bytesLvl bool // element-level facts for copy/append
	typeTags map[string]int
	tagTypes []types.Type
	globalsTouched map[string]bool
	headEnv    map[string]Env
	noInvWarn  bool
	specErrs   []string
	safetyOn   bool
	safetyTags []string
	lockOn     bool
	lockTags   []string
	noAutoInline bool
	smokeOn    bool
	lateVars   map[string]bool
	usedLib    map[string]bool
	errFormats []errFmt
	sprintfs   []sprintfRec // fmt.Sprintf calls with a literal format (suffix model)
	recDefs    map[string]*recDef
	lemmaUsed  map[*Lemma]bool
	lemmaProving *Lemma
	lemmaForms []lemmaForm
	recEnvs    []Env
	sentinels  []string
	rootFr     *Frame
	smokeExit  *Obligation
	calledContracts map[*ssa.Function]bool
	ptrFieldSeq int
	ptrFieldIDs map[string]int
	implIfaces  map[string]*types.Interface
	thorough bool
	thoroughProp string // thorough-tier clauses are active only for the property they are tagged with ("" = all)
	headLock map[string]int
}

func newVC(p *Prog, rootKey string, loopMods map[string]map[string]bool) *VC {
	vc := &VC{p: p, srt: newSorter(), declared: map[string]bool{}, svars: map[string]*SVar{},
		oblNames: map[string]int{}, counters: map[string]int{}, strIDs: map[string]int{}, used: map[string]bool{},
		loopMods: loopMods, modsOut: map[string]map[string]bool{}, rootKey: rootKey, typeTags: map[string]int{},
		globalsTouched: map[string]bool{}, lateVars: map[string]bool{}, usedLib: map[string]bool{}, calledContracts: map[*ssa.Function]bool{}, ptrFieldIDs: map[string]int{}, implIfaces: map[string]*types.Interface{}, headLock: map[string]int{}}
	if vc.loopMods == nil {
		vc.loopMods = map[string]map[string]bool{}
	}
	return vc
}

func (vc *VC) unsupported(format string, a ...interface{}) {
	s := fmt.Sprintf(format, a...)
	for _, u := range vc.unsup {
		if u == s {
			return
		}
	}
	vc.unsup = append(vc.unsup, s)
}

func (vc *VC) declare(name, sort string) {
	if vc.declared[name] {
		return
	}
	vc.declared[name] = true
	vc.decls = append(vc.decls, fmt.Sprintf("(declare-const %s %s)", smtName(name), sort))
}

func (vc *VC) declareFun(name string, args []string, res string) {
	if vc.declared[name] {
		return
	}
	vc.declared[name] = true
	vc.decls = append(vc.decls, fmt.Sprintf("(declare-fun %s (%s) %s)", smtName(name), strings.Join(args, " "), res))
}

func (vc *VC) fresh(prefix, sort string) string {
	vc.counters[prefix]++
	n := fmt.Sprintf("%s!%d", prefix, vc.counters[prefix])
	vc.declare(n, sort)
	return smtName(n)
}

func (vc *VC) svar(name, sort string, ty types.Type) *SVar {
	if v, ok := vc.svars[name]; ok {
		return v
	}
	v := &SVar{Name: name, Sort: sort, Ty: ty}
	vc.svars[name] = v
	vc.declare(name+"@0", sort)
	return v
}

func verName(name string, k int) string { return smtName(fmt.Sprintf("%s@%d", name, k)) }

// cur returns the term for the current version of a state variable in env.
func (vc *VC) cur(env Env, name string) string {
	if _, ok := vc.svars[name]; !ok {
		panic("unknown svar " + name)
	}
	return verName(name, env[name])
}

// bump creates a new version of the variable in env and returns its term.
func (vc *VC) bump(env Env, name string) string {
	v := vc.svars[name]
	v.n++
	vc.declare(fmt.Sprintf("%s@%d", name, v.n), v.Sort)
	env[name] = v.n
	return verName(name, v.n)
}

func (vc *VC) newNode(name string, env Env) *Node {
	n := &Node{id: len(vc.nodes), name: name, env: env.clone(), inEnv: env}
	vc.nodes = append(vc.nodes, n)
	return n
}

func (n *Node) assume(f string) {
	if f == "true" || f == "" {
		return
	}
	n.cmds = append(n.cmds, Cmd{F: f})
}

func (vc *VC) newObl(name, kind string, tags []string, text string, pos token.Pos) *Obligation {
	vc.oblNames[name]++
	if k := vc.oblNames[name]; k > 1 {
		name = fmt.Sprintf("%s~%d", name, k)
	}
	ob := &Obligation{Name: name, Kind: kind, Tags: tags, Text: text, Func: vc.rootKey}
	if pos.IsValid() {
		ps := vc.p.fset.Position(pos)
		ob.Pos = fmt.Sprintf("%s:%d", strings.TrimPrefix(ps.Filename, "/repo/"), ps.Line)
	}
	ob.Sel = smtName(fmt.Sprintf("sel!%d", len(vc.obls)))
	vc.declare(fmt.Sprintf("sel!%d", len(vc.obls)), "Bool")
	vc.obls = append(vc.obls, ob)
	return ob
}

func (vc *VC) assertAt(n *Node, f string, ob *Obligation) {
	if ob.Loc == "" {
		ob.Loc = fmt.Sprintf("n%d", n.id)
	}
	n.cmds = append(n.cmds, Cmd{Assert: true, F: f, Ob: ob})
}

// connect merges the environments of incoming edges into a new node.
func (vc *VC) join(name string, ins []*Edge) *Node {
	if len(ins) == 0 {
		n := vc.newNode(name, Env{})
		n.dead = true
		return n
	}
	if len(ins) == 1 {
		n := vc.newNode(name, ins[0].from.env)
		ins[0].to = n
		ins[0].from.out = append(ins[0].from.out, ins[0])
		return n
	}
	keys := map[string]bool{}
	for _, e := range ins {
		for k := range e.from.env {
			keys[k] = true
		}
	}
	names := make([]string, 0, len(keys))
	for k := range keys {
		names = append(names, k)
	}
	sort.Strings(names)
	env := Env{}
	for _, k := range names {
		v0 := ins[0].from.env[k]
		same := true
		for _, e := range ins[1:] {
			if e.from.env[k] != v0 {
				same = false
				break
			}
		}
		if same {
			env[k] = v0
			continue
		}
		nv := vc.bump(env, k)
		for _, e := range ins {
			e.eqs = append(e.eqs, sEq(nv, verName(k, e.from.env[k])))
		}
	}
	n := vc.newNode(name, env)
	for _, e := range ins {
		e.to = n
		e.from.out = append(e.from.out, e)
	}
	return n
}

// ------------------------------------------------------------------ emission

func (vc *VC) strConst(s string) string {
	if s == "" {
		return "0"
	}
	if id, ok := vc.strIDs[s]; ok {
		return fmt.Sprint(id)
	}
	id := len(vc.strIDs) + 1
	vc.strIDs[s] = id
	vc.strList = append(vc.strList, s)
	vc.axioms = append(vc.axioms, fmt.Sprintf("(= (str.len_ %d) %d)", id, len(s)))
	return fmt.Sprint(id)
}

func (vc *VC) okName(n *Node) string { return smtName(fmt.Sprintf("ok!%d", n.id)) }

func (vc *VC) nodeEquation(n *Node, relevant map[*Node]bool) string {
	// continuation
	var conts []string
	for _, e := range n.out {
		var q string
		if e.to != nil && (relevant == nil || relevant[e.to]) {
			q = sImp(sAnd(e.eqs...), vc.okName(e.to))
		} else {
			q = "true"
		}
		for i := len(e.asserts) - 1; i >= 0; i-- {
			c := e.asserts[i]
			if c.Assert && c.Ob.Smoke {
				q = sAnd(sImp(c.Ob.Sel, c.F), q)
			} else if c.Assert {
				q = sAnd(sImp(c.Ob.Sel, c.F), sImp(c.F, q))
			} else {
				q = sImp(c.F, q)
			}
		}
		conts = append(conts, sImp(e.cond, q))
	}
	q := sAnd(conts...)
	for i := len(n.cmds) - 1; i >= 0; i-- {
		c := n.cmds[i]
		if c.Assert && c.Ob.Smoke {
			q = sAnd(sImp(c.Ob.Sel, c.F), q)
		} else if c.Assert {
			q = sAnd(sImp(c.Ob.Sel, c.F), sImp(c.F, q))
		} else {
			q = sImp(c.F, q)
		}
	}
	return q
}

// Query builds the SMT-LIB text with the given obligations selected.
func (vc *VC) Query(selected map[*Obligation]bool, entry *Node, wantModel bool, extraAssume string) string {
	var sb strings.Builder
	sb.WriteString("(set-option :produce-models true)\n(set-logic ALL)\n")
	sb.WriteString(prelude)
	for _, d := range vc.srt.decls {
		sb.WriteString(d)
		sb.WriteByte('\n')
	}
	for _, d := range vc.decls {
		sb.WriteString(d)
		sb.WriteByte('\n')
	}
	for _, a := range vc.axioms {
		sb.WriteString("(assert " + a + ")\n")
	}
	// which known dynamic types implement the interfaces used in type assertions (decided by go/types)
	var inames []string
	for k := range vc.implIfaces {
		inames = append(inames, k)
	}
	sort.Strings(inames)
	for _, k := range inames {
		for i, tt := range vc.tagTypes {
			if tt == types.Typ[types.Invalid] {
				continue
			}
			if types.Implements(tt, vc.implIfaces[k]) {
				sb.WriteString(fmt.Sprintf("(assert (%s %d))\n", smtName(k), i+1))
			} else {
				sb.WriteString(fmt.Sprintf("(assert (not (%s %d)))\n", smtName(k), i+1))
			}
		}
	}
	// slicing: only nodes from which a selected assertion is reachable matter; every other node is `true`
	relevant := map[*Node]bool{}
	preds := map[*Node][]*Node{}
	for _, n := range vc.nodes {
		for _, e := range n.out {
			if e.to != nil {
				preds[e.to] = append(preds[e.to], n)
			}
		}
	}
	var mark func(n *Node)
	mark = func(n *Node) {
		if relevant[n] {
			return
		}
		relevant[n] = true
		for _, p := range preds[n] {
			mark(p)
		}
	}
	for _, n := range vc.nodes {
		hit := false
		for _, c := range n.cmds {
			if c.Assert && selected[c.Ob] {
				hit = true
			}
		}
		for _, e := range n.out {
			for _, c := range e.asserts {
				if c.Assert && selected[c.Ob] {
					hit = true
				}
			}
		}
		if hit {
			mark(n)
		}
	}
	for _, n := range vc.nodes {
		if n.dead || !relevant[n] {
			continue
		}
		sb.WriteString(fmt.Sprintf("(declare-const %s Bool)\n", vc.okName(n)))
	}
	for _, n := range vc.nodes {
		if n.dead || !relevant[n] {
			continue
		}
		sb.WriteString(fmt.Sprintf("(assert (= %s %s))\n", vc.okName(n), vc.nodeEquation(n, relevant)))
	}

	for _, ob := range vc.obls {
		if selected[ob] {
			sb.WriteString("(assert " + ob.Sel + ")\n")
		} else {
			sb.WriteString("(assert (not " + ob.Sel + "))\n")
		}
	}
	if extraAssume != "" {
		sb.WriteString("(assert " + extraAssume + ")\n")
	}
	sb.WriteString("(assert (not " + vc.okName(entry) + "))\n(check-sat)\n")
	if wantModel {
		sb.WriteString("(get-model)\n")
	}
	return sb.String()
}

// skipT: a thorough-tier clause (tag T) is left out in the quick tier, and in the thorough tier of a property it is not
// tagged with (the heavy merge-iterator clauses belong to C05; checking them again under C12 only repeated them).
func (vc *VC) skipT(tags []string) bool {
	if !hasTag(tags, "T") {
		return false
	}
	if !vc.thorough {
		return true
	}
	return vc.thoroughProp != "" && !hasTag(tags, vc.thoroughProp)
}
