package main

// Replay of solver counterexamples against the real code.
//
// A replay TEMPLATE (/verif/replay/templates/<name>.json + .go.tmpl) belongs to an obligation (regular expression on
// the obligation id).  It names the inputs it needs as contract-language expressions over the function's parameters,
// evaluated in the ENTRY state of the failing VC (`c.CompactionRatio`, `len(currentKey)`, `bytes(data,64)`).  When the
// obligation is refuted with a model, kvc asks the solver for the values of those expressions (get-value on the same
// query), instantiates the Go test template with them, injects it into the package with `go test -overlay` (nothing
// is written to the repository) and runs it against the real code.  The test is a hand-written oracle for that
// function: it prints KVC-REPLAY-VIOLATION when the real code misbehaves on the solver's input.

import (
	"encoding/json"
	"fmt"
	"math"
	"os"
	"os/exec"
	"path/filepath"
	"regexp"
	"strconv"
	"strings"
	"time"
)

type replayTemplate struct {
	Obligation string            `json:"obligation"` // regexp on the obligation id
	PackageDir string            `json:"package_dir"`
	Template   string            `json:"template"` // file name next to the json
	Values     map[string]string `json:"values"`   // placeholder -> contract expression | bytes(expr,N)
	Probe      string            `json:"probe"`    // optional test file (no placeholders): small exhaustive domain, used when the solver gives no values
	dir        string
}

func loadReplayTemplates(verifDir string) []*replayTemplate {
	var out []*replayTemplate
	files, _ := filepath.Glob(filepath.Join(verifDir, "replay", "templates", "*.json"))
	for _, f := range files {
		data, err := os.ReadFile(f)
		if err != nil {
			continue
		}
		var t replayTemplate
		if json.Unmarshal(data, &t) == nil && t.Obligation != "" {
			t.dir = filepath.Dir(f)
			out = append(out, &t)
		}
	}
	return out
}

var bytesRe = regexp.MustCompile(`^bytes\((.*),\s*(\d+)\)$`)

// replayObligation: (confirmed, output).  output == "" means no template applies.
func (p *Prog) replayObligation(verifDir, repo, id string, r *FuncResult, ob *Obligation) (bool, string) {
	if r == nil || r.vc == nil || ob == nil {
		return false, ""
	}
	var tpl *replayTemplate
	for _, t := range loadReplayTemplates(verifDir) {
		if re, err := regexp.Compile(t.Obligation); err == nil && re.MatchString(id) {
			tpl = t
			break
		}
	}
	if tpl == nil {
		return false, ""
	}
	vc := r.vc
	fr := vc.rootFr
	if fr == nil {
		return false, "replay: no root frame"
	}
	entry := r.entry
	sc := vc.specCtx(fr, entry, fr.entryEnv)
	// parameters by name at entry
	for i, prm := range fr.fn.Params {
		_ = i
		if t, ok := fr.regs[prm]; ok {
			sc.names[prm.Name()] = Val{T: t, Ty: prm.Type()}
		}
	}
	type want struct {
		name  string
		terms []string // first = the value (or the length for bytes), rest = the byte terms
		isBytes bool
	}
	var wants []want
	var allTerms []string
	for name, ex := range tpl.Values {
		w := want{name: name}
		if m := bytesRe.FindStringSubmatch(strings.TrimSpace(ex)); m != nil {
			e, err := ParseExpr(m[1])
			if err != nil {
				return false, "replay: " + err.Error()
			}
			v, err := sc.eval(e)
			if err != nil {
				return false, "replay: " + err.Error()
			}
			n, _ := strconv.Atoi(m[2])
			st := sc.term(v)
			w.isBytes = true
			w.terms = append(w.terms, app("s.len", st))
			mem := vc.byteMem()
			row := app("select", vc.cur(fr.entryEnv, mem.Name), app("s.arr", st))
			for i := 0; i < n; i++ {
				w.terms = append(w.terms, app("select", row, app("+", app("s.off", st), fmt.Sprint(i))))
			}
		} else {
			e, err := ParseExpr(ex)
			if err != nil {
				return false, "replay: " + err.Error()
			}
			v, err := sc.eval(e)
			if err != nil {
				return false, "replay: " + err.Error()
			}
			w.terms = append(w.terms, sc.term(v))
		}
		allTerms = append(allTerms, w.terms...)
		wants = append(wants, w)
	}
	q := vc.Query(map[*Obligation]bool{ob: true}, entry, false, "")
	q = strings.Replace(q, "(get-model)", "", -1)
	q += "\n(get-value (" + strings.Join(allTerms, " ") + "))\n"
	initWorkDir()
	qf := filepath.Join(workDir, "replay-"+fmt.Sprint(time.Now().UnixNano())+".smt2")
	os.WriteFile(qf, []byte(q), 0644)
	defer os.Remove(qf)
	var vals []string
	for _, solver := range [][]string{{"z3-new", "-T:20", qf}, {"z3", "-T:20", qf}, {"z3-new", "-T:20", "smt.mbqi=false", qf}} {
		out, _ := exec.Command(solver[0], solver[1:]...).CombinedOutput()
		txt := string(out)
		if !strings.HasPrefix(strings.TrimSpace(txt), "sat") {
			continue
		}
		vals = parseGetValue(txt[strings.Index(txt, "sat")+3:], len(allTerms))
		if vals != nil {
			break
		}
	}
	if vals == nil {
		return tpl.probe(repo, "replay: the solver gave no values for the template inputs")
	}
	// fill the template
	src, err := os.ReadFile(filepath.Join(tpl.dir, tpl.Template))
	if err != nil {
		return false, "replay: " + err.Error()
	}
	text := string(src)
	k := 0
	inputs := map[string]string{}
	for _, w := range wants {
		if w.isBytes {
			n, err := strconv.ParseInt(goInt(vals[k]), 10, 64)
			if err != nil || n < 0 || int(n) > len(w.terms)-1 {
				return false, fmt.Sprintf("replay: input %s has length %s, beyond what the template replays", w.name, vals[k])
			}
			var bs []string
			for i := 0; i < int(n); i++ {
				bs = append(bs, goInt(vals[k+1+i]))
			}
			lit := "[]byte{" + strings.Join(bs, ", ") + "}"
			inputs[w.name] = lit
			k += len(w.terms)
		} else {
			inputs[w.name] = goLiteral(vals[k])
			k++
		}
	}
	for name, lit := range inputs {
		text = strings.ReplaceAll(text, "{{"+name+"}}", lit)
	}
	ok, out := runReplayTest(repo, tpl.PackageDir, text)
	ib, _ := json.Marshal(inputs)
	report := "inputs from the solver model: " + string(ib) + "\n" + out
	if !ok {
		return tpl.probe(repo, report)
	}
	return true, report
}

// runReplayTest injects text as an in-package test and runs it against the real code.
func runReplayTest(repo, pkgDir, text string) (bool, string) {
	scratch, err := os.MkdirTemp("", "kvc-replay-")
	if err != nil {
		return false, "replay: " + err.Error()
	}
	defer os.RemoveAll(scratch)
	tf := filepath.Join(scratch, "zz_kvc_replay_test.go")
	os.WriteFile(tf, []byte(text), 0644)
	ov := map[string]map[string]string{"Replace": {filepath.Join(repo, pkgDir, "zz_kvc_replay_test.go"): tf}}
	ovb, _ := json.Marshal(ov)
	ovf := filepath.Join(scratch, "ov.json")
	os.WriteFile(ovf, ovb, 0644)
	cmd := exec.Command("go", "test", "-overlay", ovf, "-vet=off", "-count=1", "-timeout", "30s", "-run", "TestKvcReplay", "./"+pkgDir+"/")
	cmd.Dir = repo
	cmd.Env = append(os.Environ(), "GOFLAGS=-mod=mod", "GOPROXY=off")
	outb, _ := cmd.CombinedOutput()
	out := string(outb)
	if strings.Contains(out, "panic: test timed out") {
		return true, "the real code did not terminate on the replay input within the time limit:\n" + truncate(out, 2000)
	}
	return strings.Contains(out, "KVC-REPLAY-VIOLATION"), truncate(out, 4000)
}

// probe: the template's own small exhaustive input domain, when the solver produced no usable values.
func (t *replayTemplate) probe(repo, why string) (bool, string) {
	if t.Probe == "" {
		return false, why
	}
	src, err := os.ReadFile(filepath.Join(t.dir, t.Probe))
	if err != nil {
		return false, why + "; probe: " + err.Error()
	}
	ok, out := runReplayTest(repo, t.PackageDir, string(src))
	return ok, why + "\nBOUNDED PROBE (the template's exhaustive small input domain, not the solver's model):\n" + out
}

// parseGetValue: values of a (get-value (t1 ... tn)) answer, in order.
func parseGetValue(s string, n int) []string {
	s = strings.TrimSpace(s)
	if !strings.HasPrefix(s, "(") {
		return nil
	}
	// top-level list of pairs (term value)
	var pairs []string
	d, start := 0, -1
	for i := 0; i < len(s); i++ {
		switch s[i] {
		case '(':
			d++
			if d == 2 {
				start = i
			}
		case ')':
			if d == 2 && start >= 0 {
				pairs = append(pairs, s[start+1:i])
				start = -1
			}
			d--
			if d == 0 {
				i = len(s)
			}
		}
	}
	if len(pairs) != n {
		return nil
	}
	var out []string
	for _, pr := range pairs {
		// the value is the last balanced s-expression of the pair
		pr = strings.TrimSpace(pr)
		if strings.HasSuffix(pr, ")") {
			d := 0
			for i := len(pr) - 1; i >= 0; i-- {
				if pr[i] == ')' {
					d++
				} else if pr[i] == '(' {
					d--
					if d == 0 {
						out = append(out, pr[i:])
						break
					}
				}
			}
		} else {
			out = append(out, pr[strings.LastIndexAny(pr, " \t\n")+1:])
		}
	}
	if len(out) != n {
		return nil
	}
	return out
}

func goInt(v string) string {
	v = strings.TrimSpace(v)
	if strings.HasPrefix(v, "(- ") {
		return "-" + strings.TrimSuffix(strings.TrimPrefix(v, "(- "), ")")
	}
	return v
}

// goLiteral: SMT value -> Go expression (integers, booleans, IEEE doubles).
func goLiteral(v string) string {
	v = strings.TrimSpace(v)
	switch {
	case v == "true" || v == "false":
		return v
	case strings.HasPrefix(v, "(_ NaN"):
		return "math.NaN()"
	case strings.HasPrefix(v, "(_ +oo"):
		return "math.Inf(1)"
	case strings.HasPrefix(v, "(_ -oo"):
		return "math.Inf(-1)"
	case strings.HasPrefix(v, "(_ +zero"):
		return "0.0"
	case strings.HasPrefix(v, "(_ -zero"):
		return "math.Copysign(0, -1)"
	case strings.HasPrefix(v, "(fp "):
		f := strings.Fields(strings.TrimSuffix(strings.TrimPrefix(v, "(fp "), ")"))
		if len(f) == 3 {
			bits := bitsOf(f[0]) + bitsOf(f[1]) + bitsOf(f[2])
			if len(bits) == 64 {
				if u, err := strconv.ParseUint(bits, 2, 64); err == nil {
					_ = math.Float64frombits
					return fmt.Sprintf("math.Float64frombits(0x%x)", u)
				}
			}
		}
	}
	return goInt(v)
}

func bitsOf(lit string) string {
	if strings.HasPrefix(lit, "#b") {
		return lit[2:]
	}
	if strings.HasPrefix(lit, "#x") {
		var sb strings.Builder
		for _, c := range lit[2:] {
			n, _ := strconv.ParseUint(string(c), 16, 8)
			sb.WriteString(fmt.Sprintf("%04b", n))
		}
		return sb.String()
	}
	return ""
}
