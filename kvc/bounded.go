package main

// Bounded stand-ins (/verif/bounded/*.json): where a function is not within reach of the contracts (or its contract is
// assumed), a bounded check of the real code with a STATED bound stands in.  They are run by the property check, reported
// separately ("bounded", never counted among the proved obligations) and a failure is a violation whose replay file
// holds the failing input found.

import (
	"encoding/json"
	"os"
	"os/exec"
	"path/filepath"
	"sort"
	"strings"
	"time"
)

type boundedCheck struct {
	Property    string `json:"property"`
	PackageDir  string `json:"package_dir"`
	File        string `json:"file"`
	Test        string `json:"test"`
	StandsInFor string `json:"stands_in_for"`
	Bound       string `json:"bound"`
	name        string
	dir         string
}

type boundedResult struct {
	Name        string  `json:"name"`
	StandsInFor string  `json:"stands_in_for"`
	Bound       string  `json:"bound"`
	Result      string  `json:"result"`
	Seconds     float64 `json:"seconds"`
	output      string
}

func runBounded(verifDir, repo, prop string) []boundedResult {
	files, _ := filepath.Glob(filepath.Join(verifDir, "bounded", "*.json"))
	sort.Strings(files)
	var out []boundedResult
	for _, f := range files {
		data, err := os.ReadFile(f)
		if err != nil {
			continue
		}
		var b boundedCheck
		if json.Unmarshal(data, &b) != nil || b.Property != prop {
			continue
		}
		b.name = strings.TrimSuffix(filepath.Base(f), ".json")
		b.dir = filepath.Dir(f)
		if b.Test == "" {
			b.Test = "TestKvcBounded"
		}
		t0 := time.Now()
		res := boundedResult{Name: b.name, StandsInFor: b.StandsInFor, Bound: b.Bound}
		scratch, err := os.MkdirTemp("", "kvc-bounded-")
		if err != nil {
			res.Result, res.output = "error", err.Error()
			out = append(out, res)
			continue
		}
		src, err := os.ReadFile(filepath.Join(b.dir, b.File))
		if err != nil {
			res.Result, res.output = "error", err.Error()
			out = append(out, res)
			os.RemoveAll(scratch)
			continue
		}
		tf := filepath.Join(scratch, "zz_kvc_bounded_test.go")
		os.WriteFile(tf, src, 0644)
		ov := map[string]map[string]string{"Replace": {filepath.Join(repo, b.PackageDir, "zz_kvc_bounded_test.go"): tf}}
		ovb, _ := json.Marshal(ov)
		ovf := filepath.Join(scratch, "ov.json")
		os.WriteFile(ovf, ovb, 0644)
		cmd := exec.Command("go", "test", "-overlay", ovf, "-vet=off", "-count=1", "-timeout", "120s", "-run", "^"+b.Test+"$", "./"+b.PackageDir+"/")
		cmd.Dir = repo
		cmd.Env = append(os.Environ(), "GOFLAGS=-mod=mod", "GOPROXY=off")
		outb, _ := cmd.CombinedOutput()
		os.RemoveAll(scratch)
		txt := string(outb)
		res.output = truncate(txt, 6000)
		res.Seconds = round3(time.Since(t0).Seconds())
		switch {
		case strings.Contains(txt, "KVC-BOUNDED-VIOLATION") || strings.Contains(txt, "KVC-REPLAY-VIOLATION"):
			res.Result = "violation"
		case strings.Contains(txt, "panic: test timed out"):
			res.Result = "violation (no termination within the limit)"
		case strings.Contains(txt, "\nok ") || strings.HasPrefix(txt, "ok "):
			res.Result = "held within the bound"
		default:
			res.Result = "error"
		}
		out = append(out, res)
	}
	return out
}
