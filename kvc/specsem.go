package main

// Contract expressions -> SMT terms in a typed environment.

import (
	"sort"
	"regexp"
	"fmt"
	"go/constant"
	"go/token"
	"go/types"
	"strings"

	"golang.org/x/tools/go/ssa"
)

type Val struct {
	T    string
	Ty   types.Type // Go type when known
	Sort string     // SMT sort when Ty is nil (spec-only values)
	LV   *LVal      // addressable location (T computed on demand from env)
	Pkg  *types.Package // package name value (for qualified identifiers)
}

type SpecCtx struct {
	vc       *VC
	fr       *Frame
	node     *Node
	env      Env
	old      Env
	names    map[string]Val
	pkg      *types.Package
	atLoop   *ssa.BasicBlock
	calleeFn *ssa.Function
	depth    int
	noRecEnv bool // applications under a parameter environment (lemma templates) do not name a real state
	pos      token.Pos // source position the expression is evaluated at (scoping of local names); NoPos = end of function
}

func (vc *VC) specCtx(fr *Frame, n *Node, env Env) *SpecCtx {
	sc := &SpecCtx{vc: vc, fr: fr, node: n, env: env, old: fr.entryEnv, names: map[string]Val{}}
	fn := fr.fn
	if fn.Pkg != nil {
		sc.pkg = fn.Pkg.Pkg
	} else if fn.Parent() != nil && fn.Parent().Pkg != nil {
		sc.pkg = fn.Parent().Pkg.Pkg
	}
	for i, p := range fn.Params {
		if i < len(fr.params) {
			sc.names[p.Name()] = Val{T: fr.params[i], Ty: p.Type()}
		}
	}
	for _, fv := range fn.FreeVars {
		t := fv.Type().(*types.Pointer).Elem()
		lv := vc.addrOf(fr, n, fv)
		if lv != nil {
			// captured variable: read in the state the expression is evaluated in (old(...) gives the entry value)
			sc.names[fv.Name()] = Val{Ty: t, LV: lv}
		}
	}
	return sc
}

func (sc *SpecCtx) sortOfVal(v Val) string {
	if v.Ty != nil {
		return sc.vc.srt.sortOf(v.Ty)
	}
	return v.Sort
}

func (sc *SpecCtx) term(v Val) string {
	if v.T != "" {
		return v.T
	}
	if v.LV != nil {
		return sc.vc.load(sc.env, v.LV)
	}
	return "0"
}

func (sc *SpecCtx) formula(e Expr) (string, error) {
	v, err := sc.eval(e)
	if err != nil {
		return "", err
	}
	if sc.sortOfVal(v) != "Bool" {
		return "", fmt.Errorf("%s: not a boolean formula (sort %s)", e, sc.sortOfVal(v))
	}
	return sc.term(v), nil
}

func (sc *SpecCtx) resolveType(s string) (types.Type, string, error) {
	s = strings.TrimSpace(s)
	switch s {
	case "int", "Int":
		return types.Typ[types.Int], "Int", nil
	case "bool":
		return types.Typ[types.Bool], "Bool", nil
	case "ref", "Ref":
		return nil, "Int", nil
	case "bstr", "BStr", "string":
		return types.Typ[types.String], "Int", nil
	case "uint64":
		return types.Typ[types.Uint64], "Int", nil
	case "uint32":
		return types.Typ[types.Uint32], "Int", nil
	case "byte", "uint8":
		return types.Typ[types.Uint8], "Int", nil
	case "error":
		return types.Universe.Lookup("error").Type(), "Iface", nil
	case "[]byte":
		return types.NewSlice(types.Typ[types.Byte]), "Slice", nil
	}
	if strings.HasPrefix(s, "map[") {
		// spec-only total map: map[K]V
		d, i := 0, 0
		for i = 3; i < len(s); i++ {
			if s[i] == '[' {
				d++
			} else if s[i] == ']' {
				d--
				if d == 0 {
					break
				}
			}
		}
		_, ks, err := sc.resolveType(s[4:i])
		if err != nil {
			return nil, "", err
		}
		_, vs, err := sc.resolveType(s[i+1:])
		if err != nil {
			return nil, "", err
		}
		return nil, "(Array " + ks + " " + vs + ")", nil
	}
	if strings.HasPrefix(s, "seq[") && strings.HasSuffix(s, "]") {
		_, es, err := sc.resolveType(s[4 : len(s)-1])
		if err != nil {
			return nil, "", err
		}
		return nil, "(Array Int " + es + ")", nil
	}
	if strings.HasPrefix(s, "set[") && strings.HasSuffix(s, "]") {
		_, es, err := sc.resolveType(s[4 : len(s)-1])
		if err != nil {
			return nil, "", err
		}
		return nil, "(Array " + es + " Bool)", nil
	}
	if sc.pkg != nil {
		tv, err := types.Eval(sc.vc.p.fset, sc.pkg, token.NoPos, s)
		if err == nil && tv.IsType() {
			return tv.Type, sc.vc.srt.sortOf(tv.Type), nil
		}
		// qualified name: prefer the packages imported by sc.pkg, then any repository package of that name
		if i := strings.LastIndex(s, "."); i > 0 {
			prefix := strings.TrimLeft(s[:i], "*[]")
			stars := s[:len(s)-len(strings.TrimLeft(s, "*[]"))]
			for _, imp := range sc.pkg.Imports() {
				if imp.Name() == prefix {
					if o := imp.Scope().Lookup(s[i+1:]); o != nil {
						if tn, ok := o.(*types.TypeName); ok {
							var t types.Type = tn.Type()
							for k := len(stars) - 1; k >= 0; k-- {
								if stars[k] == '*' {
									t = types.NewPointer(t)
								}
							}
							return t, sc.vc.srt.sortOf(t), nil
						}
					}
				}
			}
			for _, pk := range sc.vc.p.pkgs {
				if strings.Contains(pk.PkgPath, "/pkg/engine/transaction") || strings.HasSuffix(pk.PkgPath, "/pkg/iterator") {
					continue // legacy packages that are not imported anywhere
				}
				if pk.Types != nil && pk.Types.Name() == prefix && strings.HasPrefix(pk.PkgPath, repoPrefix) {
					if o := pk.Types.Scope().Lookup(s[i+1:]); o != nil {
						if tn, ok := o.(*types.TypeName); ok {
							var t types.Type = tn.Type()
							for k := len(stars) - 1; k >= 0; k-- {
								if stars[k] == '*' {
									t = types.NewPointer(t)
								}
							}
							return t, sc.vc.srt.sortOf(t), nil
						}
					}
				}
			}
		}
	}
	return nil, "", fmt.Errorf("cannot resolve type %q", s)
}

func (sc *SpecCtx) withEnv(env Env) *SpecCtx {
	c := *sc
	c.env = env
	return &c
}

func (sc *SpecCtx) lookupLocal(name string) (Val, bool) {
	// local variable of the frame's function by source name: choose the cell declared last before the loop
	fr := sc.fr
	if fr == nil || sc.calleeFn != nil {
		return Val{}, false
	}
	var best *ssa.Alloc
	for a := range fr.lvs {
		al, ok := a.(*ssa.Alloc)
		if !ok || al.Comment != name {
			continue
		}
		if sc.pos.IsValid() && al.Pos() > sc.pos {
			continue // declared after the point of evaluation
		}
		if best == nil || al.Pos() > best.Pos() {
			best = al
		}
	}
	if best == nil {
		return Val{}, false
	}
	lv := fr.lvs[best]
	return Val{Ty: lv.typ, LV: lv}, true
}

func (sc *SpecCtx) eval(e Expr) (Val, error) {
	vc := sc.vc
	switch e := e.(type) {
	case *EInt:
		var s string
		if strings.HasPrefix(e.V, "0x") || strings.HasPrefix(e.V, "0X") {
			v := constant.MakeFromLiteral(e.V, token.INT, 0)
			s, _ = constInt(v)
		} else {
			s = e.V
		}
		return Val{T: s, Ty: types.Typ[types.UntypedInt]}, nil
	case *EBool:
		return Val{T: fmt.Sprint(e.V), Ty: types.Typ[types.Bool]}, nil
	case *EStr:
		return Val{T: vc.strConst(e.V), Ty: types.Typ[types.String]}, nil
	case *EIdent:
		return sc.evalIdent(e.Name)
	case *EUn:
		x, err := sc.eval(e.X)
		if err != nil {
			return Val{}, err
		}
		switch e.Op {
		case "!":
			return Val{T: sNot(sc.term(x)), Ty: types.Typ[types.Bool]}, nil
		case "-":
			return Val{T: app("-", sc.term(x)), Ty: x.Ty, Sort: "Int"}, nil
		}
	case *EBin:
		return sc.evalBin(e)
	case *ESel:
		return sc.evalSel(e)
	case *EIdx:
		x, err := sc.eval(e.X)
		if err != nil {
			return Val{}, err
		}
		i, err := sc.eval(e.I)
		if err != nil {
			return Val{}, err
		}
		if x.Ty != nil {
			switch u := x.Ty.Underlying().(type) {
			case *types.Slice:
				m := vc.memMap(u.Elem())
				s := sc.term(x)
				lv := &LVal{kind: lvMem, ref: app("s.arr", s), idx: []string{app("+", app("s.off", s), sc.term(i))}, typ: u.Elem()}
				_ = m
				return Val{Ty: u.Elem(), LV: lv}, nil
			case *types.Array:
				if x.LV != nil {
					c := *x.LV
					c.idx = append(append([]string{}, x.LV.idx...), sc.term(i))
					c.typ = u.Elem()
					return Val{Ty: u.Elem(), LV: &c}, nil
				}
				return Val{T: app("select", sc.term(x), sc.term(i)), Ty: u.Elem()}, nil
			case *types.Map:
				dom, val := vc.mapMaps(u)
				_ = dom
				return Val{T: app("select", app("select", vc.cur(sc.env, val.Name), sc.term(x)), sc.term(i)), Ty: u.Elem()}, nil
			}
		}
		// spec-level array
		srt := sc.sortOfVal(x)
		if strings.HasPrefix(srt, "(Array ") {
			return Val{T: app("select", sc.term(x), sc.term(i)), Sort: arrayElemSort(srt)}, nil
		}
		return Val{}, fmt.Errorf("cannot index %s", e.X)
	case *ESlice:
		x, err := sc.eval(e.X)
		if err != nil {
			return Val{}, err
		}
		if x.Ty == nil {
			return Val{}, fmt.Errorf("cannot slice %s", e.X)
		}
		if _, ok := x.Ty.Underlying().(*types.Slice); !ok {
			return Val{}, fmt.Errorf("cannot slice %s", e.X)
		}
		s := sc.term(x)
		lo, hi := "0", app("s.len", s)
		if e.Lo != nil {
			v, err := sc.eval(e.Lo)
			if err != nil {
				return Val{}, err
			}
			lo = sc.term(v)
		}
		if e.Hi != nil {
			v, err := sc.eval(e.Hi)
			if err != nil {
				return Val{}, err
			}
			hi = sc.term(v)
		}
		return Val{T: app("mk-slice", app("s.arr", s), app("+", app("s.off", s), lo), app("-", hi, lo), app("-", app("s.cap", s), lo)), Ty: x.Ty}, nil
	case *EQuant:
		c := *sc
		c.names = map[string]Val{}
		for k, v := range sc.names {
			c.names[k] = v
		}
		var binders []string
		var guards []string
		for _, qv := range e.Vars {
			ty, srt, err := sc.resolveType(qv.Type)
			if err != nil {
				return Val{}, err
			}
			vc.counters["qv"]++
			nm := fmt.Sprintf("%s!q%d", qv.Name, vc.counters["qv"])
			binders = append(binders, fmt.Sprintf("(%s %s)", smtName(nm), srt))
			c.names[qv.Name] = Val{T: smtName(nm), Ty: ty, Sort: srt}
			if ty != nil {
				if g := vc.srt.typeFact(smtName(nm), ty); g != "true" {
					guards = append(guards, g)
				}
			}
		}
		body, err := c.formula(e.Body)
		if err != nil {
			return Val{}, err
		}
		q := "forall"
		if e.Forall {
			body = sImp(sAnd(guards...), body)
		} else {
			q = "exists"
			body = sAnd(append(guards, body)...)
		}
		return Val{T: fmt.Sprintf("(%s (%s) %s)", q, strings.Join(binders, " "), body), Ty: types.Typ[types.Bool]}, nil
	case *ECall:
		return sc.evalCall(e)
	}
	return Val{}, fmt.Errorf("unsupported expression %s", e)
}

func arrayElemSort(s string) string {
	// "(Array K V)" -> V
	inner := strings.TrimSuffix(strings.TrimPrefix(s, "(Array "), ")")
	d := 0
	for i := 0; i < len(inner); i++ {
		switch inner[i] {
		case '(':
			d++
		case ')':
			d--
		case ' ':
			if d == 0 {
				return inner[i+1:]
			}
		}
	}
	return "Int"
}

func (sc *SpecCtx) evalIdent(name string) (Val, error) {
	vc := sc.vc
	if v, ok := sc.names[name]; ok {
		return v, nil
	}
	if name == "nil" {
		return Val{T: "nil", Sort: "Nil"}, nil
	}
	if g, ok := vc.p.ghostGlobals[name]; ok {
		ty, srt, err := sc.resolveType(g.Type)
		if err != nil {
			return Val{}, err
		}
		sv := "GG$" + name
		vc.svar(sv, srt, ty)
		return Val{Ty: ty, Sort: srt, LV: &LVal{kind: lvGlobal, sv: sv, typ: ty, gsort: srt}}, nil
	}
	if sc.atLoop != nil || sc.fr != nil {
		if v, ok := sc.lookupLocal(name); ok {
			return v, nil
		}
	}
	if name == "idx" && sc.atLoop != nil {
		// number of completed iterations of a range-over-slice loop: hidden rangeindex + 1
		for a, lv := range sc.fr.lvs {
			if al, ok := a.(*ssa.Alloc); ok && al.Comment == "rangeindex" && sc.atLoop != nil && al.Block() != nil {
				// the rangeindex cell whose increment is in this loop head
				for _, in := range sc.atLoop.Instrs {
					if st, ok := in.(*ssa.Store); ok && st.Addr == al {
						return Val{T: app("+", vc.load(sc.env, lv), "1"), Ty: types.Typ[types.Int]}, nil
					}
				}
			}
		}
		return Val{}, fmt.Errorf("idx: no range index in this loop")
	}
	if sc.pkg != nil {
		if o := sc.pkg.Scope().Lookup(name); o != nil {
			return sc.objVal(o)
		}
		for _, imp := range sc.pkg.Imports() {
			if imp.Name() == name {
				return Val{Pkg: imp, Sort: "Pkg"}, nil
			}
		}
		// any repo package by name
		for _, pk := range vc.p.pkgs {
			if pk.Types != nil && pk.Types.Name() == name && strings.HasPrefix(pk.PkgPath, repoPrefix) {
				return Val{Pkg: pk.Types, Sort: "Pkg"}, nil
			}
		}
	}
	// a standard-library package named by its (single-element) path: io, os, ...
	if sp, ok := vc.p.spkgs[name]; ok && sp.Pkg != nil && sp.Pkg.Name() == name {
		return Val{Pkg: sp.Pkg, Sort: "Pkg"}, nil
	}
	if o := types.Universe.Lookup(name); o != nil {
		if c, ok := o.(*types.Const); ok {
			if s, ok := constInt(c.Val()); ok {
				return Val{T: s, Ty: c.Type()}, nil
			}
		}
	}
	return Val{}, fmt.Errorf("unknown identifier %q", name)
}

func (sc *SpecCtx) objVal(o types.Object) (Val, error) {
	vc := sc.vc
	switch o := o.(type) {
	case *types.Const:
		switch {
		case isBool(o.Type()):
			return Val{T: fmt.Sprint(constant.BoolVal(o.Val())), Ty: o.Type()}, nil
		case isString(o.Type()):
			return Val{T: vc.strConst(constant.StringVal(o.Val())), Ty: o.Type()}, nil
		case isFloat(o.Type()):
			f, _ := constant.Float64Val(o.Val())
			return Val{T: float64Lit(f), Ty: o.Type()}, nil
		}
		if s, ok := constInt(o.Val()); ok {
			return Val{T: s, Ty: o.Type()}, nil
		}
		if s, ok := constInt(constant.ToInt(o.Val())); ok {
			return Val{T: s, Ty: o.Type()}, nil
		}
	case *types.Var:
		// package-level variable
		sp := vc.p.spkgs[o.Pkg().Path()]
		if sp != nil {
			if g, ok := sp.Members[o.Name()].(*ssa.Global); ok {
				if t, ok := vc.sentinel(g); ok {
					return Val{T: t, Ty: o.Type()}, nil
				}
				lv := vc.addrOf(sc.fr, sc.node, g)
				if lv != nil {
					return Val{Ty: o.Type(), LV: lv}, nil
				}
			}
		}
	}
	return Val{}, fmt.Errorf("cannot use %s in a contract", o)
}

func (sc *SpecCtx) nilOf(v Val) string {
	return sc.vc.srt.zeroOf(v.Ty)
}

func (sc *SpecCtx) evalBin(e *EBin) (Val, error) {
	boolT := types.Typ[types.Bool]
	switch e.Op {
	case "==>", "<==>", "&&", "||":
		l, err := sc.formula(e.L)
		if err != nil {
			return Val{}, err
		}
		r, err := sc.formula(e.R)
		if err != nil {
			return Val{}, err
		}
		switch e.Op {
		case "==>":
			return Val{T: sImp(l, r), Ty: boolT}, nil
		case "<==>":
			return Val{T: sEq(l, r), Ty: boolT}, nil
		case "&&":
			return Val{T: sAnd(l, r), Ty: boolT}, nil
		default:
			return Val{T: sOr(l, r), Ty: boolT}, nil
		}
	}
	l, err := sc.eval(e.L)
	if err != nil {
		return Val{}, err
	}
	r, err := sc.eval(e.R)
	if err != nil {
		return Val{}, err
	}
	switch e.Op {
	case "==", "!=":
		var f string
		switch {
		case r.Sort == "Nil" && l.Sort == "Nil":
			f = "true"
		case r.Sort == "Nil":
			f = sc.isNil(l)
		case l.Sort == "Nil":
			f = sc.isNil(r)
		default:
			lt, rt := sc.term(l), sc.term(r)
			if l.Ty != nil && isFloat(l.Ty) {
				f = app("fp.eq", lt, rt)
			} else {
				f = sEq(lt, rt)
			}
		}
		if e.Op == "!=" {
			f = sNot(f)
		}
		return Val{T: f, Ty: boolT}, nil
	case "<", "<=", ">", ">=":
		lt, rt := sc.term(l), sc.term(r)
		op := e.Op
		if (l.Ty != nil && isFloat(l.Ty)) || (r.Ty != nil && isFloat(r.Ty)) {
			op = map[string]string{"<": "fp.lt", "<=": "fp.leq", ">": "fp.gt", ">=": "fp.geq"}[e.Op]
			if l.Ty == nil || !isFloat(l.Ty) {
				lt = app("(_ to_fp 11 53)", "RNE", app("to_real", lt))
			}
			if r.Ty == nil || !isFloat(r.Ty) {
				rt = app("(_ to_fp 11 53)", "RNE", app("to_real", rt))
			}
		}
		return Val{T: app(op, lt, rt), Ty: boolT}, nil
	case "+", "-", "*", "/", "%":
		op := map[string]string{"+": "+", "-": "-", "*": "*", "/": "div", "%": "mod"}[e.Op]
		ty := l.Ty
		if ty == nil || ty == types.Typ[types.UntypedInt] {
			ty = r.Ty
		}
		return Val{T: app(op, sc.term(l), sc.term(r)), Ty: ty, Sort: "Int"}, nil
	}
	return Val{}, fmt.Errorf("unsupported operator %s", e.Op)
}

func (sc *SpecCtx) isNil(v Val) string {
	t := sc.term(v)
	if v.Ty != nil {
		switch v.Ty.Underlying().(type) {
		case *types.Slice:
			return sEq(app("s.arr", t), "0")
		case *types.Interface:
			return sEq(app("i.tag", t), "0")
		}
	}
	switch sc.sortOfVal(v) {
	case "Slice":
		return sEq(app("s.arr", t), "0")
	case "Iface":
		return sEq(app("i.tag", t), "0")
	}
	return sEq(t, "0")
}

func derefStruct(t types.Type) (types.Type, bool) {
	if t == nil {
		return nil, false
	}
	if p, ok := t.Underlying().(*types.Pointer); ok {
		t = p.Elem()
	}
	if _, ok := t.Underlying().(*types.Struct); ok {
		return t, true
	}
	return t, false
}

func (sc *SpecCtx) evalSel(e *ESel) (Val, error) {
	vc := sc.vc
	x, err := sc.eval(e.X)
	if err != nil {
		return Val{}, err
	}
	if x.Pkg != nil {
		o := x.Pkg.Scope().Lookup(e.Name)
		if o == nil {
			return Val{}, fmt.Errorf("%s.%s not found", x.Pkg.Name(), e.Name)
		}
		c := *sc
		return c.objVal(o)
	}
	if x.Ty == nil {
		return Val{}, fmt.Errorf("%s: selector on untyped value", e)
	}
	// interface value: ghost model fields keyed by the dynamic object
	if _, isIface := x.Ty.Underlying().(*types.Interface); isIface {
		if g, ok := vc.p.ghosts[typeName(x.Ty)+"."+e.Name]; ok {
			return sc.ghostField(g, typeName(x.Ty), app("i.val", sc.term(x)))
		}
		return Val{}, fmt.Errorf("%s: no ghost field %s on interface %s", e, e.Name, typeName(x.Ty))
	}
	st, ok := derefStruct(x.Ty)
	if !ok {
		return Val{}, fmt.Errorf("%s: not a struct (type %s)", e, x.Ty)
	}
	_, isPtr := x.Ty.Underlying().(*types.Pointer)
	// ghost field?
	if g, ok := vc.p.ghosts[typeName(st)+"."+e.Name]; ok {
		ref := sc.term(x)
		if !isPtr && x.LV != nil {
			ref = x.LV.ref
		}
		return sc.ghostField(g, typeName(st), ref)
	}
	s := st.Underlying().(*types.Struct)
	// find field (including promoted through embedded structs, one level)
	for i := 0; i < s.NumFields(); i++ {
		if s.Field(i).Name() == e.Name {
			if isPtr {
				base := &LVal{kind: lvHeap, ref: sc.term(x), root: st, typ: st}
				return Val{Ty: s.Field(i).Type(), LV: vc.fieldOf(base, st, i)}, nil
			}
			if x.LV != nil && (x.LV.kind == lvHeap) {
				return Val{Ty: s.Field(i).Type(), LV: vc.fieldOf(x.LV, st, i)}, nil
			}
			return Val{T: app(vc.srt.structAcc(st, e.Name), sc.term(x)), Ty: s.Field(i).Type()}, nil
		}
	}
	for i := 0; i < s.NumFields(); i++ {
		f := s.Field(i)
		if !f.Embedded() {
			continue
		}
		inner := &ESel{X: &ESel{X: e.X, Name: f.Name()}, Name: e.Name}
		if v, err := sc.eval(inner); err == nil {
			return v, nil
		}
	}
	return Val{}, fmt.Errorf("%s: no field %s in %s", e, e.Name, typeName(st))
}

func (sc *SpecCtx) ghostField(g *GhostField, owner string, ref string) (Val, error) {
	vc := sc.vc
	save := sc.pkg
	if pk, ok := vc.p.pkgs[g.Pkg]; ok && pk.Types != nil {
		sc.pkg = pk.Types
	}
	ty, srt, err := sc.resolveType(g.Type)
	sc.pkg = save
	if err != nil {
		return Val{}, err
	}
	name := "G$" + owner + "$" + g.Name
	vc.svar(name, "(Array Int "+srt+")", nil)
	lv := &LVal{kind: lvGhost, sv: name, ref: ref, typ: ty, gsort: srt}
	return Val{Ty: ty, Sort: srt, LV: lv}, nil
}

func (sc *SpecCtx) evalArgs(es []Expr) ([]Val, error) {
	var out []Val
	for _, a := range es {
		v, err := sc.eval(a)
		if err != nil {
			return nil, err
		}
		out = append(out, v)
	}
	return out, nil
}

func (sc *SpecCtx) evalCall(e *ECall) (Val, error) {
	vc := sc.vc
	boolT := types.Typ[types.Bool]
	intT := types.Typ[types.Int]
	switch e.Fun {
	case "old":
		if len(e.Args) != 1 {
			return Val{}, fmt.Errorf("old takes one argument")
		}
		c := sc.withEnv(sc.old)
		v, err := c.eval(e.Args[0])
		if err != nil {
			return Val{}, err
		}
		return Val{T: c.term(v), Ty: v.Ty, Sort: v.Sort}, nil
	case "len", "cap":
		v, err := sc.eval(e.Args[0])
		if err != nil {
			return Val{}, err
		}
		t := sc.term(v)
		if v.Ty != nil {
			switch u := v.Ty.Underlying().(type) {
			case *types.Slice:
				return Val{T: app("s."+e.Fun, t), Ty: intT}, nil
			case *types.Basic:
				return Val{T: app("str.len_", t), Ty: intT}, nil
			case *types.Map:
				return Val{T: sIte(sEq(t, "0"), "0", app("select", vc.cur(sc.env, vc.mapLenOf(u).Name), t)), Ty: intT}, nil
			case *types.Array:
				return Val{T: fmt.Sprint(u.Len()), Ty: intT}, nil
			}
		}
		if sc.sortOfVal(v) == "Slice" {
			return Val{T: app("s."+e.Fun, t), Ty: intT}, nil
		}
		return Val{}, fmt.Errorf("len of %s", e.Args[0])
	case "ite":
		c, err := sc.formula(e.Args[0])
		if err != nil {
			return Val{}, err
		}
		a, err := sc.eval(e.Args[1])
		if err != nil {
			return Val{}, err
		}
		b, err := sc.eval(e.Args[2])
		if err != nil {
			return Val{}, err
		}
		return Val{T: sIte(c, sc.term(a), sc.term(b)), Ty: a.Ty, Sort: a.Sort}, nil
	case "min", "max":
		a, err := sc.eval(e.Args[0])
		if err != nil {
			return Val{}, err
		}
		b, err := sc.eval(e.Args[1])
		if err != nil {
			return Val{}, err
		}
		op := "<="
		if e.Fun == "max" {
			op = ">="
		}
		return Val{T: sIte(app(op, sc.term(a), sc.term(b)), sc.term(a), sc.term(b)), Ty: a.Ty, Sort: "Int"}, nil
	case "unchanged":
		var fs []string
		for _, a := range e.Args {
			cur, err := sc.eval(a)
			if err != nil {
				return Val{}, err
			}
			c := sc.withEnv(sc.old)
			old, err := c.eval(a)
			if err != nil {
				return Val{}, err
			}
			fs = append(fs, sEq(sc.term(cur), c.term(old)))
		}
		return Val{T: sAnd(fs...), Ty: boolT}, nil
	case "fresh":
		v, err := sc.eval(e.Args[0])
		if err != nil {
			return Val{}, err
		}
		t := sc.term(v)
		if sc.sortOfVal(v) == "Slice" {
			t = app("s.arr", t)
		}
		vc.allocVar()
		return Val{T: sAnd(sNot(sEq(t, "0")), sNot(app("select", vc.cur(sc.old, "alloc"), t)), app("select", vc.cur(sc.env, "alloc"), t)), Ty: boolT}, nil
	case "allocated":
		v, err := sc.eval(e.Args[0])
		if err != nil {
			return Val{}, err
		}
		vc.allocVar()
		return Val{T: app("select", vc.cur(sc.env, "alloc"), sc.term(v)), Ty: boolT}, nil
	case "lockset":
		// lockset(mu1, W, mu2, R, ...): the current goroutine holds exactly these locks (lockset(): none)
		vc.lockVar()
		arr := "((as const (Array Int Int)) 0)"
		for i := 0; i+1 < len(e.Args); i += 2 {
			v, err := sc.eval(e.Args[i])
			if err != nil {
				return Val{}, err
			}
			var addr string
			if v.LV != nil && v.Ty != nil && isLockType(v.Ty) {
				addr = vc.lockAddr(v.LV)
			} else if v.Ty != nil {
				if pt, ok := v.Ty.Underlying().(*types.Pointer); ok && isLockType(pt.Elem()) {
					addr = sc.term(v)
				}
			}
			if addr == "" {
				return Val{}, fmt.Errorf("lockset: %s is not a mutex", e.Args[i])
			}
			m, _ := e.Args[i+1].(*EIdent)
			st := "2"
			if m != nil && m.Name == "R" {
				st = "1"
			}
			arr = app("store", arr, addr, st)
		}
		return Val{T: sEq(vc.cur(sc.env, "LockSt"), arr), Ty: boolT}, nil
	case "lockstate":
		// lockstate(mu): 0 = not held, 1 = held shared, 2 = held exclusive (by the owner under consideration)
		v, err := sc.eval(e.Args[0])
		if err != nil {
			return Val{}, err
		}
		if v.LV != nil && v.Ty != nil && isLockType(v.Ty) {
			return Val{T: vc.lockState(sc.env, v.LV), Ty: intT}, nil
		}
		if v.Ty != nil {
			if pt, ok := v.Ty.Underlying().(*types.Pointer); ok && isLockType(pt.Elem()) {
				return Val{T: vc.lockState(sc.env, &LVal{kind: lvCell, ref: sc.term(v), typ: pt.Elem()}), Ty: intT}, nil
			}
		}
		return Val{}, fmt.Errorf("lockstate: %s is not a mutex", e.Args[0])
	case "held", "holds":
		// holds(x.mu, W) / holds(x.mu, R) / held(x.mu)  -- lock state of the current goroutine
		v, err := sc.eval(e.Args[0])
		if err != nil {
			return Val{}, err
		}
		var st string
		if v.LV != nil && v.Ty != nil && isLockType(v.Ty) {
			st = vc.lockState(sc.env, v.LV)
		} else if v.Ty != nil {
			// pointer to a mutex
			if pt, ok := v.Ty.Underlying().(*types.Pointer); ok && isLockType(pt.Elem()) {
				st = vc.lockState(sc.env, &LVal{kind: lvCell, ref: sc.term(v), typ: pt.Elem()})
			}
		}
		if st == "" {
			return Val{}, fmt.Errorf("holds: %s is not a mutex", e.Args[0])
		}
		if len(e.Args) == 2 {
			m, _ := e.Args[1].(*EIdent)
			if m != nil && m.Name == "W" {
				return Val{T: sEq(st, "2"), Ty: boolT}, nil
			}
			if m != nil && m.Name == "R" {
				return Val{T: app(">=", st, "1"), Ty: boolT}, nil
			}
			if m != nil && m.Name == "none" {
				return Val{T: sEq(st, "0"), Ty: boolT}, nil
			}
			return Val{}, fmt.Errorf("holds: mode must be W, R or none")
		}
		return Val{T: app(">=", st, "1"), Ty: boolT}, nil
	case "bstr":
		v, err := sc.eval(e.Args[0])
		if err != nil {
			return Val{}, err
		}
		bt := vc.bstrOf(sc.env, sc.term(v))
		if sc.node != nil && !strings.Contains(bt, "!q") {
			// the content identity of a window determines its length (per-term instance; bound variables excluded)
			sc.node.assume(sEq(app("blen_", bt), app("s.len", sc.term(v))))
		}
		return Val{T: bt, Ty: types.Typ[types.String], Sort: "Int"}, nil
	case "bcmp":
		a, err := sc.eval(e.Args[0])
		if err != nil {
			return Val{}, err
		}
		b, err := sc.eval(e.Args[1])
		if err != nil {
			return Val{}, err
		}
		vc.needOrder()
		return Val{T: app("bcmp_", sc.term(a), sc.term(b)), Ty: intT}, nil
	case "blt", "ble":
		a, err := sc.eval(e.Args[0])
		if err != nil {
			return Val{}, err
		}
		b, err := sc.eval(e.Args[1])
		if err != nil {
			return Val{}, err
		}
		vc.needOrder()
		if e.Fun == "blt" {
			return Val{T: app("<", app("bcmp_", sc.term(a), sc.term(b)), "0"), Ty: boolT}, nil
		}
		return Val{T: app("<=", app("bcmp_", sc.term(a), sc.term(b)), "0"), Ty: boolT}, nil
	case "bprefix", "bsuffix":
		a, err := sc.eval(e.Args[0])
		if err != nil {
			return Val{}, err
		}
		b, err := sc.eval(e.Args[1])
		if err != nil {
			return Val{}, err
		}
		vc.declareFun(e.Fun+"_", []string{"Int", "Int"}, "Bool")
		return Val{T: app(e.Fun+"_", sc.term(a), sc.term(b)), Ty: boolT}, nil
	case "errors.Is", "errorsIs":
		a, err := sc.eval(e.Args[0])
		if err != nil {
			return Val{}, err
		}
		b, err := sc.eval(e.Args[1])
		if err != nil {
			return Val{}, err
		}
		return Val{T: vc.errorsIs(sc.term(a), sc.term(b)), Ty: boolT}, nil
	case "upd":
		a, err := sc.eval(e.Args[0])
		if err != nil {
			return Val{}, err
		}
		k, err := sc.eval(e.Args[1])
		if err != nil {
			return Val{}, err
		}
		v, err := sc.eval(e.Args[2])
		if err != nil {
			return Val{}, err
		}
		return Val{T: app("store", sc.term(a), sc.term(k), sc.term(v)), Sort: sc.sortOfVal(a)}, nil
	case "typeIs":
		// typeIs(x, "*pkg.T"): dynamic type of interface value
		v, err := sc.eval(e.Args[0])
		if err != nil {
			return Val{}, err
		}
		s, ok := e.Args[1].(*EStr)
		if !ok {
			return Val{}, fmt.Errorf("typeIs needs a type string")
		}
		ty, _, err := sc.resolveType(s.V)
		if err != nil || ty == nil {
			return Val{}, fmt.Errorf("typeIs: %v", err)
		}
		return Val{T: sEq(app("i.tag", sc.term(v)), fmt.Sprint(vc.typeTag(ty))), Ty: boolT}, nil
	case "dyn":
		// dyn(x): the object behind an interface value
		v, err := sc.eval(e.Args[0])
		if err != nil {
			return Val{}, err
		}
		var ty types.Type
		if len(e.Args) == 2 {
			if s, ok := e.Args[1].(*EStr); ok {
				ty, _, _ = sc.resolveType(s.V)
			}
		}
		return Val{T: app("i.val", sc.term(v)), Ty: ty, Sort: "Int"}, nil
	case "load":
		// load(x): the value held by a typed atomic (atomic.Pointer[T] -> *T, atomic.Int32 -> int32, ...)
		v, err := sc.eval(e.Args[0])
		if err != nil {
			return Val{}, err
		}
		if nt, ok := types.Unalias(v.Ty).(*types.Named); ok && nt.Obj().Pkg() != nil && nt.Obj().Pkg().Path() == "sync/atomic" {
			switch nt.Obj().Name() {
			case "Pointer":
				if ta := nt.TypeArgs(); ta != nil && ta.Len() == 1 {
					return Val{T: sc.term(v), Ty: types.NewPointer(ta.At(0))}, nil
				}
			case "Int32":
				return Val{T: sc.term(v), Ty: types.Typ[types.Int32]}, nil
			case "Int64":
				return Val{T: sc.term(v), Ty: types.Typ[types.Int64]}, nil
			case "Uint32":
				return Val{T: sc.term(v), Ty: types.Typ[types.Uint32]}, nil
			case "Uint64":
				return Val{T: sc.term(v), Ty: types.Typ[types.Uint64]}, nil
			case "Bool":
				return Val{T: sc.term(v), Ty: types.Typ[types.Bool]}, nil
			}
		}
		return Val{}, fmt.Errorf("load(): argument is not a typed atomic (%v)", v.Ty)
	case "blen":
		v, err := sc.eval(e.Args[0])
		if err != nil {
			return Val{}, err
		}
		vc.declareFun("blen_", []string{"Int"}, "Int")
		return Val{T: app("blen_", sc.term(v)), Ty: types.Typ[types.Int]}, nil
	case "errhas":
		// errhas(err, "lit"): the text of the error contains the literal (same ghost as strings.Contains(err.Error(), "lit"))
		if len(e.Args) != 2 {
			return Val{}, fmt.Errorf("errhas(err, \"literal\")")
		}
		lit, ok := e.Args[1].(*EStr)
		if !ok {
			return Val{}, fmt.Errorf("errhas: the second argument must be a string literal")
		}
		v, err := sc.eval(e.Args[0])
		if err != nil {
			return Val{}, err
		}
		fnm := "contains$" + lit.V
		vc.declareFun(fnm, []string{"Int"}, "Bool")
		vc.declareFun("errtext_", []string{"Iface"}, "Int")
		return Val{T: app(smtName(fnm), app("errtext_", sc.term(v))), Ty: types.Typ[types.Bool]}, nil
	case "hassuffix":
		// hassuffix(s, "lit"): the string s ends with the literal
		if len(e.Args) != 2 {
			return Val{}, fmt.Errorf("hassuffix(s, \"literal\")")
		}
		lit, ok := e.Args[1].(*EStr)
		if !ok {
			return Val{}, fmt.Errorf("hassuffix: the second argument must be a string literal")
		}
		v, err := sc.eval(e.Args[0])
		if err != nil {
			return Val{}, err
		}
		return Val{T: vc.suffixTerm(lit.V, sc.term(v)), Ty: types.Typ[types.Bool]}, nil
	case "crc32", "xxhash":
		v, err := sc.eval(e.Args[0])
		if err != nil {
			return Val{}, err
		}
		fn, ty := "crc32_", types.Typ[types.Uint32]
		if e.Fun == "xxhash" {
			fn, ty = "xxhash_", types.Typ[types.Uint64]
		}
		vc.declareFun(fn, []string{"Int"}, "Int")
		return Val{T: app(fn, sc.term(v)), Ty: ty}, nil
	case "bcat":
		a, err := sc.eval(e.Args[0])
		if err != nil {
			return Val{}, err
		}
		b, err := sc.eval(e.Args[1])
		if err != nil {
			return Val{}, err
		}
		vc.declareFun("bcat_", []string{"Int", "Int"}, "Int")
		return Val{T: app("bcat_", sc.term(a), sc.term(b)), Ty: types.Typ[types.String], Sort: "Int"}, nil
	case "float":
		v, err := sc.eval(e.Args[0])
		if err != nil {
			return Val{}, err
		}
		return Val{T: app("(_ to_fp 11 53)", "RNE", app("to_real", sc.term(v))), Ty: types.Typ[types.Float64]}, nil
	case "isNaN":
		v, err := sc.eval(e.Args[0])
		if err != nil {
			return Val{}, err
		}
		return Val{T: app("fp.isNaN", sc.term(v)), Ty: boolT}, nil
	}
	// pure spec function / predicate: macro expansion
	name := e.Fun
	if pf, ok := vc.p.pures[name]; ok {
		return sc.expandPure(pf, e)
	}
	if i := strings.LastIndex(name, "."); i >= 0 {
		if pf, ok := vc.p.pures[name[i+1:]]; ok && e.Recv != nil {
			if id, isID := e.Recv.(*EIdent); isID {
				if _, isName := sc.names[id.Name]; !isName {
					return sc.expandPure(pf, e)
				}
			}
		}
	}
	return Val{}, fmt.Errorf("unknown function %s in contract", e.Fun)
}

func (sc *SpecCtx) expandPure(pf *PureFunc, e *ECall) (Val, error) {
	vc := sc.vc
	if len(e.Args) != len(pf.Params) {
		return Val{}, fmt.Errorf("%s: expects %d arguments", pf.Name, len(pf.Params))
	}
	if sc.depth > 12 {
		return Val{}, fmt.Errorf("%s: recursive spec function", pf.Name)
	}
	args, err := sc.evalArgs(e.Args)
	if err != nil {
		return Val{}, err
	}
	if pf.Rec {
		return sc.applyRec(pf, args)
	}
	c := *sc
	c.depth++
	if pk, ok := vc.p.pkgs[pf.Pkg]; ok && pk.Types != nil {
		c.pkg = pk.Types
	}
	if pf.Body == nil {
		// uninterpreted function of its arguments (state-independent)
		var sorts, terms []string
		for i, a := range args {
			_, srt, err := c.resolveType(pf.Params[i].Type)
			if err != nil {
				return Val{}, err
			}
			sorts = append(sorts, srt)
			terms = append(terms, sc.term(a))
		}
		rty, rs, err := c.resolveType(pf.Result)
		if err != nil {
			return Val{}, err
		}
		vc.declareFun("uf$"+pf.Name, sorts, rs)
		if len(terms) == 0 {
			return Val{T: smtName("uf$" + pf.Name), Ty: rty, Sort: rs}, nil
		}
		return Val{T: app(smtName("uf$"+pf.Name), terms...), Ty: rty, Sort: rs}, nil
	}
	c.names = map[string]Val{}
	for i, p := range pf.Params {
		ty, srt, err := c.resolveType(p.Type)
		if err != nil {
			return Val{}, err
		}
		v := args[i]
		nv := Val{T: sc.term(v), Ty: ty, Sort: srt}
		if v.Sort == "Nil" {
			nv.T = vc.srt.zeroOf(ty)
		}
		c.names[p.Name] = nv
	}
	c.atLoop = nil
	c.fr = sc.fr
	c.calleeFn = sc.calleeFn
	// pure bodies must not see locals
	saveFr := c.fr
	c.fr = &Frame{fn: saveFr.fn, lvs: map[ssa.Value]*LVal{}, regs: saveFr.regs, entryEnv: saveFr.entryEnv, prefix: saveFr.prefix, checkedNil: map[string]bool{}, allocFresh: map[string]bool{}}
	v, err := c.eval(pf.Body)
	if err != nil {
		return Val{}, fmt.Errorf("in %s: %v", pf.Name, err)
	}
	rty, rs, _ := c.resolveType(pf.Result)
	return Val{T: c.term(v), Ty: rty, Sort: rs}, nil
}

// mapNameOf resolves `T.f` / `Mem byte` into state-variable names (for modifies all(...)).
func (sc *SpecCtx) mapNameOf(s string) ([]string, error) {
	s = strings.TrimSpace(s)
	if strings.HasPrefix(s, "Mem ") {
		ty, _, err := sc.resolveType(strings.TrimSpace(s[4:]))
		if err != nil || ty == nil {
			return nil, fmt.Errorf("all(%s): bad element type", s)
		}
		return []string{memName(sc.vc.srt, ty)}, nil
	}
	if strings.HasPrefix(s, "map ") {
		ty, _, err := sc.resolveType(strings.TrimSpace(s[4:]))
		if err != nil || ty == nil {
			return nil, fmt.Errorf("all(%s): bad map type", s)
		}
		mt, ok := ty.Underlying().(*types.Map)
		if !ok {
			return nil, fmt.Errorf("all(%s): not a map type", s)
		}
		d, v := sc.vc.mapMaps(mt)
		return []string{d.Name, v.Name, sc.vc.mapLenOf(mt).Name}, nil
	}
	i := strings.LastIndex(s, ".")
	if i < 0 {
		return nil, fmt.Errorf("all(%s): expected T.f", s)
	}
	ty, _, err := sc.resolveType(strings.TrimPrefix(s[:i], "*"))
	if err != nil || ty == nil {
		return nil, fmt.Errorf("all(%s): %v", s, err)
	}
	f := s[i+1:]
	if _, isIface := ty.Underlying().(*types.Interface); isIface {
		if g, ok := sc.vc.p.ghosts[typeName(ty)+"."+f]; ok {
			return []string{"G$" + typeName(ty) + "$" + g.Name}, nil
		}
		return nil, fmt.Errorf("all(%s): no such ghost field on the interface", s)
	}
	st, ok := derefStruct(ty)
	if !ok {
		return nil, fmt.Errorf("all(%s): not a struct", s)
	}
	if g, ok := sc.vc.p.ghosts[typeName(st)+"."+f]; ok {
		return []string{"G$" + typeName(st) + "$" + g.Name}, nil
	}
	if f == "*" {
		return allLeafMaps(sc.vc.srt, st, st, nil), nil
	}
	return []string{"H$" + typeName(st) + "$" + f}, nil
}

// ---------------------------------------------------------------- recursive spec functions

// recDef: a recursive spec function emitted as define-fun-rec.  The state variables its body reads are implicit leading
// parameters (the function is a function of the heap it is evaluated in).
type recDef struct {
	name      string
	stateVars []string // names of the state variables, in parameter order
	building  bool
	body      string   // body with the state abstracted (st$<name>), parameters rp$<fn>$<p>, recursive calls RECCALL$<fn>
	pbind     []string // parameter binders
	rsort     string
}

var smtTokRe = regexp.MustCompile(`\|[^|]*\||[^\s()]+`)

func replaceTokens(term string, m map[string]string) string {
	return smtTokRe.ReplaceAllStringFunc(term, func(t string) string {
		if r, ok := m[t]; ok {
			return r
		}
		return t
	})
}

// paramEnv: an environment in which every state variable is at a dedicated fresh version (so that occurrences of the
// state in a term evaluated under it can be found and abstracted).
func (vc *VC) paramEnv() Env {
	env := Env{}
	var names []string
	for k := range vc.svars {
		names = append(names, k)
	}
	sort.Strings(names)
	for _, k := range names {
		vc.bump(env, k)
	}
	return env
}

// abstractState: replaces the state-variable versions of env occurring in term by bound names; returns the binders.
func (vc *VC) abstractState(term string, env Env, only []string) (string, []string, []string) {
	var names []string
	if only != nil {
		names = only
	} else {
		for k := range env {
			names = append(names, k)
		}
		sort.Strings(names)
	}
	toks := map[string]bool{}
	for _, t := range smtTokRe.FindAllString(term, -1) {
		toks[t] = true
	}
	m := map[string]string{}
	var used, binders []string
	for _, k := range names {
		vn := verName(k, env[k])
		if only == nil && !toks[vn] {
			continue
		}
		b := smtName("st$" + k)
		m[vn] = b
		used = append(used, k)
		binders = append(binders, fmt.Sprintf("(%s %s)", b, vc.svars[k].Sort))
	}
	return replaceTokens(term, m), used, binders
}

func (sc *SpecCtx) evalRecBody(pf *PureFunc, env Env) (string, string, []string, error) {
	vc := sc.vc
	c := *sc
	c.depth = 0
	if pk, ok := vc.p.pkgs[pf.Pkg]; ok && pk.Types != nil {
		c.pkg = pk.Types
	}
	c.names = map[string]Val{}
	var pbind []string
	for _, p := range pf.Params {
		ty, srt, err := c.resolveType(p.Type)
		if err != nil {
			return "", "", nil, err
		}
		sym := smtName("rp$" + pf.Name + "$" + p.Name)
		c.names[p.Name] = Val{T: sym, Ty: ty, Sort: srt}
		pbind = append(pbind, fmt.Sprintf("(%s %s)", sym, srt))
	}
	c.atLoop = nil
	c.node = vc.newNode("recdef "+pf.Name, env)
	c.env, c.old = c.node.env, c.node.env
	c.fr = &Frame{fn: nil, lvs: map[ssa.Value]*LVal{}, regs: map[ssa.Value]string{}, entryEnv: env, checkedNil: map[string]bool{}, allocFresh: map[string]bool{}}
	if sc.fr != nil {
		c.fr.fn, c.fr.prefix = sc.fr.fn, sc.fr.prefix
	}
	v, err := c.eval(pf.Body)
	if err != nil {
		return "", "", nil, fmt.Errorf("in %s: %v", pf.Name, err)
	}
	_, rs, _ := c.resolveType(pf.Result)
	return c.term(v), rs, pbind, nil
}

func (sc *SpecCtx) applyRec(pf *PureFunc, args []Val) (Val, error) {
	vc := sc.vc
	if vc.recDefs == nil {
		vc.recDefs = map[string]*recDef{}
	}
	var terms []string
	for i, a := range args {
		t := sc.term(a)
		if a.Sort == "Nil" {
			ty, _, _ := sc.resolveType(pf.Params[i].Type)
			t = vc.srt.zeroOf(ty)
		}
		terms = append(terms, t)
	}
	rty, rs, err := sc.resolveType(pf.Result)
	if err != nil {
		return Val{}, err
	}
	rd := vc.recDefs[pf.Name]
	if rd == nil {
		rd = &recDef{name: pf.Name, building: true}
		vc.recDefs[pf.Name] = rd
		// first evaluation creates the state variables the body needs; the second one runs under a parameter environment
		if _, _, _, err := sc.evalRecBody(pf, Env{}); err != nil {
			return Val{}, err
		}
		penv := vc.paramEnv()
		body, _, pbind, err := sc.evalRecBody(pf, penv)
		if err != nil {
			return Val{}, err
		}
		body, used, sbind := vc.abstractState(body, penv, nil)
		rd.stateVars = used
		rd.body, rd.pbind, rd.rsort = body, pbind, rs
		// uninterpreted at three fuel levels (all denote the same function); the definition is given by axioms that
		// unfold level k into level k-1 (see finalizeRec): every ground application is unfolded at most twice
		var sorts []string
		for _, b := range sbind {
			sorts = append(sorts, b[strings.Index(b, " ")+1:len(b)-1])
		}
		for _, b := range pbind {
			sorts = append(sorts, b[strings.Index(b, " ")+1:len(b)-1])
		}
		for k := 0; k <= 2; k++ {
			vc.declareFun(fmt.Sprintf("rf$%s$%d", pf.Name, k), sorts, rs)
		}
		rd.building = false
		vc.used["recursive spec function (definitional axioms, unfolded twice per application): "+pf.Name] = true
		vc.lemmasFor(sc, pf.Name)
	}
	if rd.building {
		return Val{T: app("RECCALL$"+pf.Name, append([]string{"STATE$" + pf.Name}, terms...)...), Ty: rty, Sort: rs}, nil
	}
	var st []string
	for _, k := range rd.stateVars {
		st = append(st, vc.cur(sc.env, k))
	}
	// remember the state this application reads: definitions and lemmas are instantiated for exactly these states
	if !sc.noRecEnv {
		vc.recEnvs = append(vc.recEnvs, sc.env.clone())
	}
	return Val{T: app(smtName(fmt.Sprintf("rf$%s$2", pf.Name)), append(st, terms...)...), Ty: rty, Sort: rs}, nil
}

// lemmasFor: every lemma (proved separately: checkLemmas) that mentions the recursive function becomes an axiom of this
// VC, universally quantified over the state it reads.
func (vc *VC) lemmasFor(sc *SpecCtx, fn string) {
	for _, l := range vc.p.lemmas {
		if l == vc.lemmaProving {
			break // the proof of a lemma may use only lemmas declared before it
		}
		if !strings.Contains(l.Text, fn+"(") || vc.lemmaUsed[l] {
			continue
		}
		// opt-in: only the lemmas named by the root function's `uses` clause (a lemma nobody needs costs solver time)
		wanted := false
		if vc.rootFr != nil && vc.rootFr.fc != nil {
			for _, u := range vc.rootFr.fc.Uses {
				if u == l.Name {
					wanted = true
				}
			}
		}
		if !wanted {
			continue
		}
		if vc.lemmaUsed == nil {
			vc.lemmaUsed = map[*Lemma]bool{}
		}
		vc.lemmaUsed[l] = true
		penv := vc.paramEnv()
		c := *sc
		c.names = map[string]Val{}
		c.atLoop = nil
		c.node = vc.newNode("lemma "+l.Name, penv)
		c.env, c.old = c.node.env, c.node.env
		c.noRecEnv = true
		if pk, ok := vc.p.pkgs[l.Pkg]; ok && pk.Types != nil {
			c.pkg = pk.Types
		}
		c.fr = &Frame{fn: nil, lvs: map[ssa.Value]*LVal{}, regs: map[ssa.Value]string{}, entryEnv: penv, checkedNil: map[string]bool{}, allocFresh: map[string]bool{}}
		f, err := c.formula(l.E)
		if err != nil {
			vc.specErrs = append(vc.specErrs, fmt.Sprintf("lemma %s: %v", l.Name, err))
			continue
		}
		// new state variables may have been created by the lemma: they are at version 0 there, abstract those too
		for k := range vc.svars {
			if _, ok := penv[k]; !ok {
				penv[k] = 0
			}
		}
		f, used, _ := vc.abstractState(f, penv, nil)
		vc.lemmaForms = append(vc.lemmaForms, lemmaForm{f, used})
		kind := "lemma"
		if l.Axiom {
			kind = "axiom (assumed)"
		}
		vc.used[kind+": "+l.Name] = true
	}
}

type lemmaForm struct {
	f    string   // lemma formula with the state it reads abstracted to st$<name> symbols
	used []string // those state variables
}

// instantiateLemmas: the definitional axioms of the recursive spec functions and the lemmas in use are instantiated for
// every state in which a recursive spec function is applied in this VC (an axiom quantified over the state arrays
// themselves defeats every solver's instantiation heuristics).
func (vc *VC) instantiateLemmas() {
	seen := map[string]bool{}
	add := func(a string) {
		if !seen[a] {
			seen[a] = true
			vc.addAxiom(a)
		}
	}
	var names []string
	for k := range vc.recDefs {
		names = append(names, k)
	}
	sort.Strings(names)
	for _, env := range vc.recEnvs {
		for _, nm := range names {
			rd := vc.recDefs[nm]
			m := map[string]string{}
			var st []string
			for _, k := range rd.stateVars {
				m[smtName("st$"+k)] = verName(k, env[k])
				st = append(st, verName(k, env[k]))
			}
			var ps []string
			for _, b := range rd.pbind {
				ps = append(ps, b[1:strings.Index(b, " ")])
			}
			for k := 2; k >= 1; k-- {
				fk := smtName(fmt.Sprintf("rf$%s$%d", nm, k))
				fk1 := smtName(fmt.Sprintf("rf$%s$%d", nm, k-1))
				m["RECCALL$"+nm] = fk1
				m["STATE$"+nm] = strings.Join(st, " ")
				body := replaceTokens(rd.body, m)
				appK := app(fk, append(append([]string{}, st...), ps...)...)
				appK1 := app(fk1, append(append([]string{}, st...), ps...)...)
				add(fmt.Sprintf("(forall (%s) (! (and (= %s %s) (= %s %s)) :pattern (%s)))", strings.Join(rd.pbind, " "), appK, body, appK, appK1, appK))
			}
		}
		for _, lf := range vc.lemmaForms {
			m := map[string]string{}
			for _, k := range lf.used {
				m[smtName("st$"+k)] = verName(k, env[k])
			}
			add(replaceTokens(lf.f, m))
		}
	}
}
