package main

// Go types -> SMT sorts, zero values, type facts, heap-map naming.

import (
	"fmt"
	"go/constant"
	"go/types"
	"math"
	"math/big"
	"strings"
)

const repoPrefix = "github.com/KevoDB/kevo"

const maxLen = "281474976710656" // 2^48: assumed bound on every slice/string length (A-LEN)

var pow2 = func() map[int]string {
	m := map[int]string{}
	for _, n := range []int{8, 16, 32, 64} {
		m[n] = new(big.Int).Lsh(big.NewInt(1), uint(n)).String()
		m[n-1] = new(big.Int).Lsh(big.NewInt(1), uint(n-1)).String()
	}
	return m
}()

func isRepoPkg(p *types.Package) bool {
	return p != nil && strings.HasPrefix(p.Path(), repoPrefix)
}

// typeName gives a short stable name for a named type: pkgname.Type
func typeName(t types.Type) string {
	switch t := t.(type) {
	case *types.Named:
		o := t.Obj()
		n := o.Name()
		if o.Pkg() != nil {
			n = o.Pkg().Name() + "." + n
			// disambiguate the two `compaction` and `iterator` packages
			if strings.HasSuffix(o.Pkg().Path(), "/engine/compaction") {
				n = "engcompaction." + o.Name()
			}
			if strings.HasSuffix(o.Pkg().Path(), "/engine/iterator") {
				n = "engiterator." + o.Name()
			}
			if strings.HasSuffix(o.Pkg().Path(), "/engine/transaction") {
				n = "engtransaction." + o.Name()
			}
			if strings.HasSuffix(o.Pkg().Path(), "/pkg/iterator") {
				n = "legacyiterator." + o.Name()
			}
		}
		if ta := t.TypeArgs(); ta != nil && ta.Len() > 0 {
			var as []string
			for i := 0; i < ta.Len(); i++ {
				as = append(as, strings.NewReplacer("*", "P", "[", "_", "]", "_", " ", "", "/", ".").Replace(types.TypeString(ta.At(i), func(p *types.Package) string { return p.Name() })))
			}
			n += "<" + strings.Join(as, ",") + ">"
		}
		return n
	case *types.Alias:
		return typeName(types.Unalias(t))
	}
	s := types.TypeString(t, func(p *types.Package) string { return p.Name() })
	return strings.NewReplacer(" ", "", ";", "_", "{", "_", "}", "_", "*", "P", "[", "_", "]", "_", "(", "_", ")", "_", ",", "_", "\"", "", "/", ".").Replace(s)
}

type atomicKind int

const (
	notSpecial atomicKind = iota
	spMutex
	spRWMutex
	spAtomicBool
	spAtomicInt
	spAtomicPtr
	spAtomicValue
	spOpaque // external struct treated as opaque scalar
)

// specialKind classifies struct types that are modelled as scalar leaves.
func specialKind(t types.Type) atomicKind {
	n, ok := types.Unalias(t).(*types.Named)
	if !ok {
		return notSpecial
	}
	o := n.Obj()
	if o.Pkg() == nil {
		return notSpecial
	}
	if _, isStruct := n.Underlying().(*types.Struct); !isStruct {
		return notSpecial
	}
	switch o.Pkg().Path() {
	case "sync":
		switch o.Name() {
		case "Mutex":
			return spMutex
		case "RWMutex":
			return spRWMutex
		}
		return spOpaque
	case "sync/atomic":
		switch o.Name() {
		case "Bool":
			return spAtomicBool
		case "Int32", "Int64", "Uint32", "Uint64", "Uintptr":
			return spAtomicInt
		case "Pointer":
			return spAtomicPtr
		case "Value":
			return spAtomicValue
		}
		return spOpaque
	}
	if !isRepoPkg(o.Pkg()) {
		return spOpaque
	}
	return notSpecial
}

// isAggregate: struct types that are decomposed into per-field heap maps.
func isAggregate(t types.Type) bool {
	if _, ok := t.Underlying().(*types.Struct); !ok {
		return false
	}
	return specialKind(t) == notSpecial
}

type sorter struct {
	decls    []string // datatype declarations in dependency order
	declared map[string]bool
}

func newSorter() *sorter {
	s := &sorter{declared: map[string]bool{}}
	return s
}

const prelude = `(declare-datatypes ((Slice 0)) (((mk-slice (s.arr Int) (s.off Int) (s.len Int) (s.cap Int)))))
(declare-datatypes ((Iface 0)) (((mk-iface (i.tag Int) (i.val Int)))))
(define-sort F64 () (_ FloatingPoint 11 53))
(declare-fun str.len_ (Int) Int)
(declare-fun str.cat_ (Int Int) Int)
(declare-fun str.ofbytes_ ((Array Int Int) Int Int) Int)
`

func (s *sorter) sortOf(t types.Type) string {
	t = types.Unalias(t)
	switch specialKind(t) {
	case spMutex, spRWMutex, spAtomicInt, spAtomicPtr, spOpaque:
		return "Int"
	case spAtomicBool:
		return "Bool"
	case spAtomicValue:
		return "Iface"
	}
	switch u := t.Underlying().(type) {
	case *types.Basic:
		switch {
		case u.Info()&types.IsBoolean != 0:
			return "Bool"
		case u.Info()&types.IsInteger != 0:
			return "Int"
		case u.Info()&types.IsFloat != 0:
			return "F64"
		case u.Info()&types.IsString != 0:
			return "Int"
		case u.Kind() == types.UnsafePointer:
			return "Int"
		case u.Kind() == types.UntypedNil:
			return "Int"
		}
		return "Int"
	case *types.Pointer, *types.Map, *types.Chan, *types.Signature:
		return "Int"
	case *types.Slice:
		return "Slice"
	case *types.Interface:
		return "Iface"
	case *types.Array:
		return "(Array Int " + s.sortOf(u.Elem()) + ")"
	case *types.Struct:
		name := "S$" + typeName(t)
		if !s.declared[name] {
			s.declared[name] = true
			var fs []string
			for i := 0; i < u.NumFields(); i++ {
				f := u.Field(i)
				fs = append(fs, fmt.Sprintf("(%s %s)", smtName(name+"."+f.Name()), s.sortOf(f.Type())))
			}
			if len(fs) == 0 {
				fs = append(fs, fmt.Sprintf("(%s Int)", smtName(name+".$unit")))
			}
			s.decls = append(s.decls, fmt.Sprintf("(declare-datatypes ((%s 0)) (((%s %s))))", smtName(name), smtName("mk$"+name), strings.Join(fs, " ")))
		}
		return smtName(name)
	case *types.Tuple:
		return "Int"
	case *types.TypeParam:
		return "Int"
	}
	return "Int"
}

func (s *sorter) structCtor(t types.Type) string { s.sortOf(t); return smtName("mk$S$" + typeName(t)) }
func (s *sorter) structAcc(t types.Type, field string) string {
	s.sortOf(t)
	return smtName("S$" + typeName(t) + "." + field)
}

func (s *sorter) zeroOf(t types.Type) string {
	t = types.Unalias(t)
	switch specialKind(t) {
	case spMutex, spRWMutex, spAtomicInt, spAtomicPtr, spOpaque:
		return "0"
	case spAtomicBool:
		return "false"
	case spAtomicValue:
		return "(mk-iface 0 0)"
	}
	switch u := t.Underlying().(type) {
	case *types.Basic:
		switch {
		case u.Info()&types.IsBoolean != 0:
			return "false"
		case u.Info()&types.IsFloat != 0:
			return "(_ +zero 11 53)"
		}
		return "0"
	case *types.Slice:
		return "(mk-slice 0 0 0 0)"
	case *types.Interface:
		return "(mk-iface 0 0)"
	case *types.Array:
		return fmt.Sprintf("((as const %s) %s)", s.sortOf(t), s.zeroOf(u.Elem()))
	case *types.Struct:
		var fs []string
		for i := 0; i < u.NumFields(); i++ {
			fs = append(fs, s.zeroOf(u.Field(i).Type()))
		}
		if len(fs) == 0 {
			fs = append(fs, "0")
		}
		return app(s.structCtor(t), fs...)
	}
	return "0"
}

// intRange returns (lo, hi] bounds of an integer type as decimal strings; ok=false for non-integers.
func intRange(t types.Type) (lo, hi string, bits int, signed bool, ok bool) {
	b, isB := t.Underlying().(*types.Basic)
	if !isB || b.Info()&types.IsInteger == 0 {
		return "", "", 0, false, false
	}
	switch b.Kind() {
	case types.Int8:
		bits, signed = 8, true
	case types.Int16:
		bits, signed = 16, true
	case types.Int32:
		bits, signed = 32, true
	case types.Int, types.Int64, types.UntypedInt, types.UntypedRune:
		bits, signed = 64, true
	case types.Uint8:
		bits = 8
	case types.Uint16:
		bits = 16
	case types.Uint32:
		bits = 32
	case types.Uint, types.Uint64, types.Uintptr:
		bits = 64
	default:
		return "", "", 0, false, false
	}
	if signed {
		return "(- " + pow2[bits-1] + ")", pow2[bits-1], bits, true, true
	}
	return "0", pow2[bits], bits, false, true
}

// typeFact: the invariant every value of Go type t satisfies (ranges, slice shape).
func (s *sorter) typeFact(term string, t types.Type) string {
	t = types.Unalias(t)
	if specialKind(t) != notSpecial {
		return "true"
	}
	switch u := t.Underlying().(type) {
	case *types.Basic:
		if lo, hi, _, _, ok := intRange(t); ok {
			return app("and", app("<=", lo, term), app("<", term, hi))
		}
		if u.Info()&types.IsString != 0 {
			return app("and", app("<=", "0", app("str.len_", term)), app("<=", app("str.len_", term), maxLen))
		}
	case *types.Slice:
		return app("and",
			app("<=", "0", app("s.arr", term)), app("<=", "0", app("s.off", term)),
			app("<=", "0", app("s.len", term)), app("<=", app("s.len", term), app("s.cap", term)),
			app("<=", app("+", app("s.off", term), app("s.cap", term)), maxLen),
			app("=>", app("=", app("s.arr", term), "0"), app("and", app("=", app("s.cap", term), "0"), app("=", app("s.off", term), "0"))))
	case *types.Pointer, *types.Map, *types.Chan, *types.Signature:
		return app("<=", "0", term)
	case *types.Interface:
		return app("and", app("<=", "0", app("i.tag", term)), app("=>", app("=", app("i.tag", term), "0"), app("=", app("i.val", term), "0")))
	case *types.Struct:
		var fs []string
		for i := 0; i < u.NumFields(); i++ {
			f := s.typeFact(app(s.structAcc(t, u.Field(i).Name()), term), u.Field(i).Type())
			if f != "true" {
				fs = append(fs, f)
			}
		}
		return sAnd(fs...)
	}
	return "true"
}

func isInteger(t types.Type) bool {
	b, ok := t.Underlying().(*types.Basic)
	return ok && b.Info()&types.IsInteger != 0
}
func isUnsigned(t types.Type) bool {
	b, ok := t.Underlying().(*types.Basic)
	return ok && b.Info()&types.IsUnsigned != 0
}
func isString(t types.Type) bool {
	b, ok := t.Underlying().(*types.Basic)
	return ok && b.Info()&types.IsString != 0
}
func isFloat(t types.Type) bool {
	b, ok := t.Underlying().(*types.Basic)
	return ok && b.Info()&types.IsFloat != 0
}
func isBool(t types.Type) bool {
	b, ok := t.Underlying().(*types.Basic)
	return ok && b.Info()&types.IsBoolean != 0
}
func isPointerLike(t types.Type) bool {
	switch u := t.Underlying().(type) {
	case *types.Pointer, *types.Map, *types.Chan, *types.Signature:
		return true
	case *types.Basic:
		return u.Kind() == types.UnsafePointer
	}
	return false
}

func float64Lit(f float64) string {
	b := math.Float64bits(f)
	sign := b >> 63
	exp := (b >> 52) & 0x7ff
	man := b & ((1 << 52) - 1)
	return fmt.Sprintf("(fp #b%b #b%011b #b%052b)", sign, exp, man)
}

func constInt(v constant.Value) (string, bool) {
	if v == nil {
		return "", false
	}
	if v.Kind() == constant.Int {
		bi, ok := constant.Val(v).(*big.Int)
		if !ok {
			i64, _ := constant.Int64Val(v)
			bi = big.NewInt(i64)
		}
		if bi.Sign() < 0 {
			return "(- " + new(big.Int).Neg(bi).String() + ")", true
		}
		return bi.String(), true
	}
	if v.Kind() == constant.Float {
		// integer-valued float constants used in integer context
		f, _ := constant.Float64Val(v)
		if f == math.Trunc(f) && math.Abs(f) < 1e18 {
			return sInt(int64(f)), true
		}
	}
	return "", false
}
