package main

// Per-function verification: build the VC (iterating until loop mod-sets and the state-variable set are
// stable), discharge obligations with the solver portfolio.

import (
	"fmt"
	"os"
	"go/token"
	"go/types"
	"sort"
	"strings"
	"sync"
	"time"

	"golang.org/x/tools/go/ssa"
)

type VerifyOpts struct {
	Thorough   bool
	ThoroughProp string
	Safety     bool
	SafetyTags []string
	OnlyKinds  map[string]bool // when set, only obligations of these kinds are solved and reported (zero-annotation sweeps)
	Locks      bool
	LockTags   []string
	TimeoutS   int
	Seed       int
	NoAutoInline bool
	Smoke      bool
}

type OblResult struct {
	Ob      *Obligation
	Status  string // proved | refuted | undecided | inconsistent
	Solver  string
	Seconds float64
	Detail  string
	Model   string
	SMTSize int
}

type FuncResult struct {
	Fn        *ssa.Function
	Key       string
	Results   []*OblResult
	SpecErrs  []string
	Unsup     []string
	Used      []string
	UsedLib   []string
	Passes    int
	BuildSecs float64
	SolveSecs float64
	SmokeBad  []string // smoke probes that were provable (vacuity!)
	SmokeRun  int
	Nodes     int
	vc        *VC
	entry     *Node
	Called    []*ssa.Function // callees whose contracts were assumed
}

func (vc *VC) setupRoot(fn *ssa.Function) (*Frame, *Node) {
	fr := vc.newFrame(fn, nil)
	fr.isRoot = true
	vc.allocVar()
	entry := vc.newNode("entry", Env{})
	fr.entryEnv = entry.env.clone()
	for _, p := range fn.Params {
		t := vc.fresh("p."+p.Name(), vc.srt.sortOf(p.Type()))
		fr.regs[p] = t
		fr.params = append(fr.params, t)
		entry.assume(vc.valueFact(entry.env, t, p.Type()))
	}
	// implicit precondition: pointer receivers are non-nil (asserted at static call sites)
	if fn.Signature.Recv() != nil && len(fn.Params) > 0 {
		if _, isPtr := fn.Params[0].Type().Underlying().(*types.Pointer); isPtr {
			entry.assume(sNot(sEq(fr.params[0], "0")))
		}
	}
	for _, fv := range fn.FreeVars {
		if ft := fv.Type().(*types.Pointer).Elem(); !isAggregate(ft) && !isArrayType(ft) && fvReadOnly(fv) {
			lv := vc.addrOf(fr, entry, fv)
			entry.assume(vc.valueFact(entry.env, vc.load(entry.env, lv), ft))
			continue
		}
		t := vc.fresh("fv."+fv.Name(), "Int")
		fr.regs[fv] = t
		entry.assume(sAnd(app("<", "0", t), vc.isAllocated(entry.env, t)))
		// distinct cells
		for _, o := range fn.FreeVars {
			if o == fv {
				break
			}
			if ot, ok := fr.regs[o]; ok {
				entry.assume(sNot(sEq(ot, t)))
			}
		}
		// captured receiver/pointer variables hold non-nil values when the parent is a method: not assumed
	}
	return fr, entry
}

func (vc *VC) ghostAt(fr *Frame, n *Node, where, callee string, ord int, res ...ssa.Value) {
	if fr.fc == nil || n == nil {
		return
	}
	for _, g := range fr.fc.Ghosts {
		if g.Where != where || g.Callee != callee || g.Ord != ord {
			continue
		}
		sc := vc.specCtx(fr, n, n.env)
		if where == "before" || where == "after" {
			sc.pos = fr.curPos
		}
		if where == "exit" && fr.exitResults != nil {
			vc.bindResultNames(sc, fr.fn, fr.exitResults)
		}
		// actual arguments of the anchoring call, by the callee's parameter names: arg_<name>
		for k, v := range fr.ghostArgs {
			sc.names["arg_"+k] = v
		}
		if len(res) == 1 && res[0] != nil {
			// results of the anchoring call: result0.., err
			var terms []string
			var tys []types.Type
			if tup, ok := res[0].Type().(*types.Tuple); ok {
				terms = fr.tuples[res[0]]
				for i := 0; i < tup.Len(); i++ {
					tys = append(tys, tup.At(i).Type())
				}
			} else if t, ok := fr.regs[res[0]]; ok {
				terms, tys = []string{t}, []types.Type{res[0].Type()}
			}
			for i, t := range terms {
				if i < len(tys) {
					v := Val{T: t, Ty: tys[i]}
					sc.names[fmt.Sprintf("result%d", i)] = v
					if len(terms) == 1 {
						sc.names["result"] = v
					}
					if i == len(terms)-1 && types.Identical(tys[i], types.Universe.Lookup("error").Type()) {
						sc.names["err"] = v
					}
				}
			}
		}
		if g.Check != nil {
			f, err := sc.formula(g.Check)
			if err != nil {
				vc.specErrs = append(vc.specErrs, fmt.Sprintf("check %q: %v", g.Text, err))
				continue
			}
			ob := vc.newObl(fmt.Sprintf("%s/check %s call %s#%d", relKey(fr.fn), g.Where, g.Callee, g.Ord), "assert", g.Tags, g.Text, token.NoPos)
			ob.Pos = fmt.Sprintf("%s:%d", strings.TrimPrefix(fr.fc.File, "/repo/"), g.Line)
			vc.assertAt(n, f, ob)
			fr.ghostDone[g] = true
			continue
		}
		lhs, err := sc.eval(g.LHS)
		if err != nil || lhs.LV == nil {
			vc.specErrs = append(vc.specErrs, fmt.Sprintf("ghost statement %q: bad left-hand side (%v)", g.Text, err))
			continue
		}
		rhs, err := sc.eval(g.RHS)
		if err != nil {
			vc.specErrs = append(vc.specErrs, fmt.Sprintf("ghost statement %q: %v", g.Text, err))
			continue
		}
		rt := sc.term(rhs)
		if rhs.Sort == "Nil" {
			switch sc.sortOfVal(lhs) {
			case "Slice":
				rt = "(mk-slice 0 0 0 0)"
			case "Iface":
				rt = "(mk-iface 0 0)"
			default:
				rt = "0"
			}
		}
		vc.store(n, lhs.LV, rt)
		fr.ghostDone[g] = true
	}
}

func (vc *VC) atReturn(fr *Frame, n *Node, results []string, pos token.Pos) {
	fr.exitResults = results
	vc.ghostAt(fr, n, "exit", "", 0)
	fc := fr.fc
	if fc != nil {
		sc := vc.specCtx(fr, n, n.env)
		vc.bindResultNames(sc, fr.fn, results)
		j := 0
		for _, c := range fc.Clauses {
			if c.Kind != "ensures" {
				continue
			}
			j++
			if vc.skipT(c.Tags) {
				continue // thorough tier only
			}
			if hasTag(c.Tags, "A") {
				// assumed clause: used at call sites, NOT checked against the body (listed in the evidence)
				vc.used["ASSUMED postcondition (not checked against the body) of "+relKey(fr.fn)+": "+truncate(c.Text, 160)] = true
				continue
			}
			lbl := fmt.Sprint(j)
			if c.Label != "" {
				lbl = c.Label
			}
			parts := conjuncts(c.E)
			for k, pe := range parts {
				f, err := sc.formula(pe)
				if err != nil {
					vc.specError(c, err)
					continue
				}
				name := fmt.Sprintf("%s/post/%s", relKey(fr.fn), lbl)
				text := c.Text
				if len(parts) > 1 {
					name = fmt.Sprintf("%s.%d", name, k+1)
					text = pe.String()
				}
				ob := vc.newObl(name, "post", c.Tags, text, pos)
				vc.assertAt(n, f, ob)
			}
		}
		vc.frameObligations(fr, n, sc, pos)
	}
	if vc.lockOn {
		vc.lockBalance(fr, n, pos)
	}
	if vc.smokeOn {
		if vc.smokeExit == nil {
			vc.smokeExit = vc.newObl(fmt.Sprintf("%s/smoke/exit", relKey(fr.fn)), "smoke", nil, "some exit reachable", pos)
			vc.smokeExit.Smoke = true
		}
		vc.assertAt(n, "false", vc.smokeExit)
	}
}

// lockBalance: a function is lock-neutral unless its contract says acquires/releases.
func (vc *VC) lockBalance(fr *Frame, n *Node, pos token.Pos) {
	if _, ok := vc.svars["LockSt"]; !ok || n.env["LockSt"] == fr.entryEnv["LockSt"] {
		return
	}
	var ex []string
	if fr.fc != nil {
		for _, c := range fr.fc.Clauses {
			if c.Kind == "acquires" || c.Kind == "releases" {
				sc := vc.specCtx(fr, n, fr.entryEnv)
				for _, loc := range splitTopLevel(c.Text) {
					e, err := ParseExpr(strings.Fields(loc)[0])
					if err != nil {
						vc.specError(c, err)
						continue
					}
					v, err := sc.eval(e)
					if err != nil || v.LV == nil {
						vc.specError(c, fmt.Errorf("bad lock location %q", loc))
						continue
					}
					if v.Ty != nil {
						if pt, ok := v.Ty.Underlying().(*types.Pointer); ok && isLockType(pt.Elem()) {
							ex = append(ex, sNot(sEq("a", sc.term(v))))
							continue
						}
					}
					ex = append(ex, sNot(sEq("a", vc.lockAddr(v.LV))))
				}
			}
		}
	}
	// locks of objects allocated during the call are irrelevant to the caller: only addresses whose state differed matter;
	// state of addresses not mentioned must be equal
	f := fmt.Sprintf("(forall ((a Int)) (=> %s (= (select %s a) (select %s a))))", sAnd(ex...), verName("LockSt", n.env["LockSt"]), verName("LockSt", fr.entryEnv["LockSt"]))
	ob := vc.newObl(fmt.Sprintf("%s/lock/balanced", relKey(fr.fn)), "lock", vc.lockTags, "lock state at exit equals lock state at entry (except acquires/releases)", pos)
	vc.assertAt(n, f, ob)
}

// frameSpec: the locations an explicit `modifies` allows to change, evaluated in the entry state.
type frameSpec struct {
	explicit    bool
	allowedAll  map[string]bool
	allowedRefs map[string][]string
}

func (vc *VC) computeFrameSpec(fr *Frame, n *Node) *frameSpec {
	fs := &frameSpec{allowedAll: map[string]bool{}, allowedRefs: map[string][]string{}}
	fc := fr.fc
	if fc == nil {
		return fs
	}
	esc := vc.specCtx(fr, n, fr.entryEnv)
	for _, c := range fc.Clauses {
		if c.Kind != "modifies" {
			continue
		}
		fs.explicit = true
		for _, loc := range splitTopLevel(c.Text) {
			loc = strings.TrimSpace(loc)
			switch {
			case loc == "nothing" || loc == "":
			case strings.HasPrefix(loc, "all("):
				names, err := esc.mapNameOf(strings.TrimSuffix(strings.TrimPrefix(loc, "all("), ")"))
				if err != nil {
					vc.specError(c, err)
					continue
				}
				for _, nm := range names {
					fs.allowedAll[nm] = true
				}
			case strings.HasPrefix(loc, "mem("):
				e, err := ParseExpr(strings.TrimSuffix(strings.TrimPrefix(loc, "mem("), ")"))
				if err != nil {
					vc.specError(c, err)
					continue
				}
				v, err := esc.eval(e)
				if err != nil {
					vc.specError(c, err)
					continue
				}
				if st, ok := v.Ty.Underlying().(*types.Slice); ok {
					nm := vc.memMap(st.Elem()).Name
					fs.allowedRefs[nm] = append(fs.allowedRefs[nm], app("s.arr", esc.term(v)))
				}
			default:
				e, err := ParseExpr(loc)
				if err != nil {
					vc.specError(c, err)
					continue
				}
				v, err := esc.eval(e)
				if err != nil || v.LV == nil {
					vc.specError(c, fmt.Errorf("modifies %s: not a location (%v)", loc, err))
					continue
				}
				if v.LV.kind == lvGlobal {
					fs.allowedAll[v.LV.sv] = true
					continue
				}
				for _, nm := range vc.lvMapNames(v.LV) {
					fs.allowedRefs[nm.name] = append(fs.allowedRefs[nm.name], nm.ref)
				}
			}
		}
	}
	return fs
}

// frameFormula: map k differs from its entry version only at allowed locations (objects allocated since entry are free).
func (vc *VC) frameFormula(fr *Frame, env Env, k string) string {
	fs := fr.frame
	sv := vc.svars[k]
	cur, old := verName(k, env[k]), verName(k, fr.entryEnv[k])
	if cur == old {
		return "true"
	}
	if !strings.HasPrefix(sv.Sort, "(Array Int ") {
		return sEq(cur, old) // scalar global
	}
	var ex []string
	for _, r := range fs.allowedRefs[k] {
		ex = append(ex, sNot(sEq("r", r)))
	}
	ex = append(ex, app("select", verName("alloc", fr.entryEnv["alloc"]), "r"))
	return fmt.Sprintf("(forall ((r Int)) (! (=> %s (= (select %s r) (select %s r))) :pattern ((select %s r))))", sAnd(ex...), cur, old, cur)
}

// witnessMap: ghost field declared `ghost witness`: the output of a ghost search, not part of any frame.
func (vc *VC) witnessMap(k string) bool {
	if !strings.HasPrefix(k, "G$") {
		return false
	}
	rest := k[2:]
	i := strings.LastIndex(rest, "$")
	if i < 0 {
		return false
	}
	g, ok := vc.p.ghosts[rest[:i]+"."+rest[i+1:]]
	return ok && g.Witness
}

func (vc *VC) framedVar(fr *Frame, k string) bool {
	if vc.witnessMap(k) {
		return false
	}
	if strings.HasPrefix(k, "L$") || k == "alloc" || strings.HasPrefix(k, "defer$") || vc.p.lockMaps[k] {
		return false
	}
	return !fr.frame.allowedAll[k]
}

// frameObligations: with an explicit `modifies`, every other pre-existing location is unchanged at exit.
func (vc *VC) frameObligations(fr *Frame, n *Node, sc *SpecCtx, pos token.Pos) {
	if fr.frame == nil || !fr.frame.explicit {
		return
	}
	var names []string
	for k := range vc.svars {
		if vc.framedVar(fr, k) && n.env[k] != fr.entryEnv[k] {
			names = append(names, k)
		}
	}
	sort.Strings(names)
	for _, k := range names {
		ob := vc.newObl(fmt.Sprintf("%s/frame/%s", relKey(fr.fn), k), "frame", nil, "only locations in modifies change: "+k, pos)
		vc.assertAt(n, vc.frameFormula(fr, n.env, k), ob)
	}
}

type mapRef struct{ name, ref string }

func (vc *VC) lvMapNames(lv *LVal) []mapRef {
	switch lv.kind {
	case lvGhost:
		return []mapRef{{lv.sv, lv.ref}}
	case lvCell:
		return []mapRef{{vc.cellMap(lv.typ).Name, lv.ref}}
	case lvMem:
		return []mapRef{{vc.memMap(lv.typ).Name, lv.ref}}
	case lvHeap:
		if isAggregate(lv.typ) && len(lv.idx) == 0 {
			var out []mapRef
			s := lv.typ.Underlying().(*types.Struct)
			for i := 0; i < s.NumFields(); i++ {
				out = append(out, vc.lvMapNames(vc.fieldOf(lv, lv.typ, i))...)
			}
			return out
		}
		return []mapRef{{vc.heapMapName(lv.root, lv.path), lv.ref}}
	case lvGlobal:
		return []mapRef{{lv.sv, ""}}
	}
	return nil
}

// buildVC constructs the VC of fn; it iterates until the loop mod-sets and the set of state variables are stable.
func (p *Prog) buildVC(fn *ssa.Function, opts VerifyOpts) (*VC, *Node, int) {
	loopMods := map[string]map[string]bool{}
	known := map[string]*SVar{}
	var vc *VC
	var entry *Node
	pass := 0
	for pass = 1; pass <= 8; pass++ {
		vc = newVC(p, relKey(fn), loopMods)
		vc.safetyOn, vc.safetyTags = opts.Safety, opts.SafetyTags
		if fc := p.contracts[fn]; fc != nil && fc.Safety {
			vc.safetyOn = true
			vc.safetyTags = fc.SafetyTags
		}
		vc.lockOn, vc.lockTags = opts.Locks, opts.LockTags
		vc.noAutoInline = opts.NoAutoInline
		vc.thorough = opts.Thorough
		vc.thoroughProp = opts.ThoroughProp
		vc.smokeOn = opts.Smoke
		// pre-create the state variables discovered by earlier passes (so havocs cover them)
		var names []string
		for k := range known {
			names = append(names, k)
		}
		sort.Strings(names)
		for _, k := range names {
			sv := known[k]
			if strings.HasPrefix(k, "L$") {
				continue
			}
			vc.svar(k, sv.Sort, sv.Ty)
		}
		var fr *Frame
		fr, entry = vc.setupRoot(fn)
		vc.rootFr = fr
		// defer flags are false at entry
		body := vc.join("body", []*Edge{{from: entry, cond: "true"}})
		if fr.fc != nil {
			sc := vc.specCtx(fr, body, body.env)
			for _, c := range fr.fc.Clauses {
				if c.Kind != "requires" {
					continue
				}
				f, err := sc.formula(c.E)
				if err != nil {
					vc.specError(c, err)
					continue
				}
				body.assume(f)
			}
		}
		if vc.smokeOn {
			ob := vc.newObl(fmt.Sprintf("%s/smoke/entry", relKey(fn)), "smoke", nil, "precondition satisfiable", token.NoPos)
			ob.Smoke = true
			vc.assertAt(body, "false", ob)
		}
		vc.assumeLockReqs(fr, body)
		fr.entryEnv = body.env.clone()
		fr.frame = vc.computeFrameSpec(fr, body)
		vc.ghostAt(fr, body, "entry", "", 0)
		vc.runFrame(fr, body)
		if len(fr.exits) > 0 {
			ins, results := vc.joinExits(fr)
			exit := vc.join("exit", ins)
			vc.atReturn(fr, exit, results, fr.retPos)
		}
		// stable?
		stable := true
		for k, sv := range vc.svars {
			if _, ok := known[k]; !ok {
				known[k] = sv
				if !strings.HasPrefix(k, "L$") {
					stable = false
				}
			}
		}
		for k := range vc.lateVars {
			if _, ok := known[k]; !ok {
				// a frame names a map nobody touched: irrelevant
			}
		}
		for k, m := range vc.modsOut {
			old := loopMods[k]
			if old == nil {
				old = map[string]bool{}
				loopMods[k] = old
			}
			for v := range m {
				if !old[v] {
					old[v] = true
					stable = false
				}
			}
		}
		if stable {
			break
		}
	}
	vc.errTextAxioms()
	vc.suffixAxioms()
	vc.instantiateLemmas()
	if os.Getenv("KVC_DEBUG") != "" {
		for k, m := range loopMods {
			var names []string
			for v := range m {
				names = append(names, v)
			}
			sort.Strings(names)
			fmt.Fprintf(os.Stderr, "loop %s modifies %v\n", k, names)
		}
	}
	// anchors: every loop contract and ghost statement must have been used
	if fc := p.contracts[fn]; fc != nil {
		nloops := len(loopHeads(fn))
		for k, lc := range fc.Loops {
			if k < 1 || k > nloops {
				vc.specErrs = append(vc.specErrs, fmt.Sprintf("%s:%d: loop %s#%d does not exist (function has %d loops): anchor lost", fc.File, lc.Line, fc.Key, k, nloops))
			}
		}
		for _, g := range fc.Ghosts {
			if !vc.rootFr.ghostDone[g] {
				vc.specErrs = append(vc.specErrs, fmt.Sprintf("%s:%d: ghost statement anchor not reached: %s", fc.File, g.Line, g.Text))
			}
		}
	}
	return vc, entry, pass
}

var buildMu sync.Mutex

func (p *Prog) VerifyFunc(fn *ssa.Function, opts VerifyOpts) *FuncResult {
	t0 := time.Now()
	buildMu.Lock()
	vc, entry, passes := p.buildVC(fn, opts)
	buildMu.Unlock()
	fr := &FuncResult{Fn: fn, Key: fullKey(fn), SpecErrs: vc.specErrs, Unsup: vc.unsup, Passes: passes, vc: vc, entry: entry, Nodes: len(vc.nodes)}
	for k := range vc.used {
		fr.Used = append(fr.Used, k)
	}
	sort.Strings(fr.Used)
	for k := range vc.usedLib {
		fr.UsedLib = append(fr.UsedLib, k)
	}
	sort.Strings(fr.UsedLib)
	for c := range vc.calledContracts {
		fr.Called = append(fr.Called, c)
	}
	fr.BuildSecs = time.Since(t0).Seconds()
	t1 := time.Now()
	var real, smoke []*Obligation
	for _, ob := range vc.obls {
		if ob.Smoke {
			smoke = append(smoke, ob)
		} else if opts.OnlyKinds == nil || opts.OnlyKinds[ob.Kind] {
			real = append(real, ob)
		}
	}
	timeout := opts.TimeoutS
	if timeout == 0 {
		timeout = 20
	}
	results := map[*Obligation]*OblResult{}
	if len(real) > 0 {
		sel := map[*Obligation]bool{}
		for _, ob := range real {
			sel[ob] = true
		}
		q := vc.Query(sel, entry, false, "")
		jt := timeout
		if jt > 8 {
			jt = 8
		}
		r := runSolversFast(q, jt, opts.Seed, fr.Key+" [all]")
		if r.Status == "unsat" {
			for _, ob := range real {
				results[ob] = &OblResult{Ob: ob, Status: "proved", Solver: r.Solver, Seconds: r.Seconds / float64(len(real)), Detail: "joint query: " + r.Detail, SMTSize: len(q)}
			}
		} else {
			// second attempt: the obligations of one location (node / loop edge) together; only groups that are
			// not proved are split into single-obligation queries
			var wg sync.WaitGroup
			var mu sync.Mutex
			groups := map[string][]*Obligation{}
			var order []string
			for _, ob := range real {
				if _, ok := groups[ob.Loc]; !ok {
					order = append(order, ob.Loc)
				}
				groups[ob.Loc] = append(groups[ob.Loc], ob)
			}
			single := func(ob *Obligation) {
				defer wg.Done()
				q := vc.Query(map[*Obligation]bool{ob: true}, entry, true, "")
				r := runSolvers(q, timeout, opts.Seed, fr.Key+" "+ob.Name)
				// escalation before reporting undecided: other seeds change the instantiation order
				// (and the last attempt gets four times the limit: an obligation that needs tens of seconds on an idle
				// machine must not turn into an alarm when the machine is loaded)
				for extra := 1; extra <= 3 && r.Status == "unknown" && !strings.Contains(r.Detail, ":error:"); extra++ {
					t := timeout
					if extra == 3 {
						t = 4 * timeout
					}
					r2 := runSolvers(q, t, opts.Seed+extra*7919, fr.Key+" "+ob.Name)
					r2.Detail = r.Detail + " || retry: " + r2.Detail
					r = r2
				}
				or := &OblResult{Ob: ob, Solver: r.Solver, Seconds: r.Seconds, Detail: r.Detail, SMTSize: len(q)}
				switch r.Status {
				case "unsat":
					or.Status = "proved"
				case "sat":
					or.Status = "refuted"
					or.Model = r.Model
				case "inconsistent":
					or.Status = "inconsistent"
				default:
					or.Status = "undecided"
					if strings.Contains(r.Detail, ":error:") {
						or.Status = "solver-error"
					}
				}
				mu.Lock()
				results[ob] = or
				mu.Unlock()
			}
			for _, loc := range order {
				obs := groups[loc]
				wg.Add(1)
				go func() {
					if len(obs) == 1 {
						single(obs[0])
						return
					}
					sel := map[*Obligation]bool{}
					for _, ob := range obs {
						sel[ob] = true
					}
					q := vc.Query(sel, entry, false, "")
					gt := timeout
					if gt > 6 {
						gt = 6
					}
					r := runSolversFast(q, gt, opts.Seed, fr.Key+" [group "+obs[0].Loc+"]")
					if r.Status == "unsat" {
						mu.Lock()
						for _, ob := range obs {
							results[ob] = &OblResult{Ob: ob, Status: "proved", Solver: r.Solver, Seconds: r.Seconds / float64(len(obs)), Detail: "group query: " + r.Detail, SMTSize: len(q)}
						}
						mu.Unlock()
						wg.Done()
						return
					}
					for _, ob := range obs[1:] {
						wg.Add(1)
						go single(ob)
					}
					single(obs[0])
				}()
			}
			wg.Wait()
		}
	}
	// smoke probes: must not be provable
	if len(smoke) > 0 {
		var wg sync.WaitGroup
		var mu sync.Mutex
		for _, ob := range smoke {
			ob := ob
			wg.Add(1)
			go func() {
				defer wg.Done()
				q := vc.Query(map[*Obligation]bool{ob: true}, entry, false, "")
				r := runSolvers(q, 3, opts.Seed, fr.Key+" "+ob.Name)
				mu.Lock()
				fr.SmokeRun++
				if r.Status == "unsat" {
					fr.SmokeBad = append(fr.SmokeBad, ob.Name)
				}
				mu.Unlock()
			}()
		}
		wg.Wait()
	}
	for _, ob := range real {
		fr.Results = append(fr.Results, results[ob])
	}
	fr.SolveSecs = time.Since(t1).Seconds()
	return fr
}
