package main

// Frame inference: for functions without an explicit `modifies`, an over-approximation of the heap maps
// a call may write (field-granular, whole map), computed as a fixpoint over the static call graph with
// CHA for interface calls.  Sound as a frame because it is derived from every store instruction reachable.

import (
	"go/token"
	"go/types"
	"sort"
	"strings"

	"golang.org/x/tools/go/ssa"
)

type ModSet struct {
	Maps map[string]bool
	Top  bool // may write anything (unknown closure call / reflect / unsafe)
	Why  string
	Blocks bool // may block unboundedly (network send, channel op, WaitGroup.Wait, long sleep)
	BlockWhy string
}

func (m *ModSet) add(s string) bool {
	if m.Maps[s] {
		return false
	}
	m.Maps[s] = true
	return true
}

func (m *ModSet) sorted() []string {
	var out []string
	for k := range m.Maps {
		out = append(out, k)
	}
	sort.Strings(out)
	return out
}

// staticLoc computes the heap-map name(s) designated by an address value, using the same naming as the translator.
func (p *Prog) staticLoc(srt *sorter, v ssa.Value, out map[string]bool) {
	switch v := v.(type) {
	case *ssa.Alloc:
		t := v.Type().(*types.Pointer).Elem()
		switch {
		case isAggregate(t):
			// local object: its fields may be visible to others only if it escapes; include conservatively
			for _, n := range allLeafMaps(srt, t, t, nil) {
				out[n] = true
			}
		case isArrayType(t):
			out[memName(srt, t.Underlying().(*types.Array).Elem())] = true
		case escapes(v):
			out["Cell$"+sortTag(srt.sortOf(t))] = true
		}
	case *ssa.Global:
		t := v.Type().(*types.Pointer).Elem()
		if isAggregate(t) {
			for _, n := range allLeafMaps(srt, t, t, nil) {
				out[n] = true
			}
		} else {
			out["G$"+v.Pkg.Pkg.Name()+"."+v.Name()] = true
		}
	case *ssa.FieldAddr:
		root, path, ok := staticPath(v)
		if !ok {
			out["$TOP"] = true
			return
		}
		ft := v.Type().(*types.Pointer).Elem()
		if isAggregate(ft) {
			for _, n := range allLeafMaps(srt, root, ft, path) {
				out[n] = true
			}
		} else {
			out["H$"+typeName(root)+"$"+strings.Join(path, ".")] = true
		}
	case *ssa.IndexAddr:
		switch xt := v.X.Type().Underlying().(type) {
		case *types.Slice:
			out[memName(srt, xt.Elem())] = true
		case *types.Pointer:
			// element of array: the array's own location
			if fa, ok := v.X.(*ssa.FieldAddr); ok {
				p.staticLoc(srt, fa, out)
			} else {
				out[memName(srt, xt.Elem().Underlying().(*types.Array).Elem())] = true
			}
		}
	default:
		pt, ok := v.Type().Underlying().(*types.Pointer)
		if !ok {
			out["$TOP"] = true
			return
		}
		t := pt.Elem()
		switch {
		case isAggregate(t):
			for _, n := range allLeafMaps(srt, t, t, nil) {
				out[n] = true
			}
		case isArrayType(t):
			out[memName(srt, t.Underlying().(*types.Array).Elem())] = true
		default:
			out["Cell$"+sortTag(srt.sortOf(t))] = true
		}
	}
}

// freshBase: the address designates (part of) an object allocated by an instruction of the same function.
func freshBase(v ssa.Value) bool {
	for {
		switch x := v.(type) {
		case *ssa.Alloc:
			return true
		case *ssa.MakeSlice:
			return true
		case *ssa.FieldAddr:
			v = x.X
		case *ssa.IndexAddr:
			v = x.X
		case *ssa.Slice:
			v = x.X
		default:
			return false
		}
	}
}

func memName(srt *sorter, elem types.Type) string {
	elem = types.Unalias(elem)
	if b, ok := elem.(*types.Basic); ok {
		// byte and uint8 (rune and int32) are the same type but distinct *types.Basic objects
		return "Mem$" + types.Typ[b.Kind()].Name()
	}
	return "Mem$" + typeName(elem)
}

// staticPath mirrors fieldOf: root is re-set when crossing a named aggregate held by value.
func staticPath(fa *ssa.FieldAddr) (root types.Type, path []string, ok bool) {
	st := fa.X.Type().Underlying().(*types.Pointer).Elem()
	f := st.Underlying().(*types.Struct).Field(fa.Field)
	var baseRoot types.Type
	var basePath []string
	switch x := fa.X.(type) {
	case *ssa.FieldAddr:
		r, p, ok2 := staticPath(x)
		if !ok2 {
			return nil, nil, false
		}
		xt := x.Type().(*types.Pointer).Elem()
		if _, named := types.Unalias(xt).(*types.Named); named && isAggregate(xt) {
			baseRoot, basePath = xt, nil
		} else {
			baseRoot, basePath = r, p
		}
	case *ssa.IndexAddr:
		return nil, nil, false
	default:
		baseRoot, basePath = st, nil
	}
	path = append(append([]string{}, basePath...), f.Name())
	return baseRoot, path, true
}

func allLeafMaps(srt *sorter, root, t types.Type, path []string) []string {
	var out []string
	s, ok := t.Underlying().(*types.Struct)
	if !ok || !isAggregate(t) {
		return []string{"H$" + typeName(root) + "$" + strings.Join(path, ".")}
	}
	for i := 0; i < s.NumFields(); i++ {
		f := s.Field(i)
		np := append(append([]string{}, path...), f.Name())
		if isAggregate(f.Type()) {
			if _, named := types.Unalias(f.Type()).(*types.Named); named {
				out = append(out, allLeafMaps(srt, f.Type(), f.Type(), nil)...)
				continue
			}
			out = append(out, allLeafMaps(srt, root, f.Type(), np)...)
			continue
		}
		out = append(out, "H$"+typeName(root)+"$"+strings.Join(np, "."))
	}
	return out
}

var blockingLib = map[string]string{
	"(*sync.WaitGroup).Wait": "WaitGroup.Wait",
	"(*sync.Cond).Wait":      "Cond.Wait",
}

func (p *Prog) computeAutoMods() {
	srt := newSorter()
	p.autoMods = map[*ssa.Function]*ModSet{}
	for _, fn := range p.allFuncs {
		p.autoMods[fn] = &ModSet{Maps: map[string]bool{}}
	}
	// direct effects
	for _, fn := range p.allFuncs {
		ms := p.autoMods[fn]
		for _, b := range fn.Blocks {
			for _, in := range b.Instrs {
				switch in := in.(type) {
				case *ssa.Store:
					if freshBase(in.Addr) {
						// stores into objects allocated by this very function never change pre-existing locations
						continue
					}
					loc := map[string]bool{}
					p.staticLoc(srt, in.Addr, loc)
					for k := range loc {
						if k == "$TOP" {
							ms.Top, ms.Why = true, "store through computed pointer"
						} else {
							ms.add(k)
						}
					}
				case *ssa.MapUpdate:
					mt := in.Map.Type().Underlying().(*types.Map)
					tag := mapTag(srt, mt)
					ms.add("MapDom$" + tag)
					ms.add("MapVal$" + tag)
					ms.add("MapLen$" + tag)
				case *ssa.Send:
					ms.Blocks, ms.BlockWhy = true, "channel send"
				case *ssa.Select:
					if in.Blocking {
						ms.Blocks, ms.BlockWhy = true, "blocking select"
					}
				case *ssa.UnOp:
					if in.Op == token.ARROW {
						ms.Blocks, ms.BlockWhy = true, "channel receive"
					}
				case ssa.CallInstruction:
					p.directCallEffects(srt, fn, in, ms)
				}
			}
		}
	}
	// ghost assignments in contracts write ghost field maps
	for fn, fc := range p.contracts {
		ms := p.autoMods[fn]
		if ms == nil {
			continue
		}
		for _, g := range fc.Ghosts {
			if sel, ok := g.LHS.(*ESel); ok {
				for k := range p.ghosts {
					if strings.HasSuffix(k, "."+sel.Name) {
						ms.add("G$" + k[:strings.LastIndex(k, ".")] + "$" + sel.Name)
					}
				}
			}
		}
	}
	// propagate along call edges
	changed := true
	for changed {
		changed = false
		for _, fn := range p.allFuncs {
			ms := p.autoMods[fn]
			for _, callee := range p.callees(fn) {
				cm := p.autoMods[callee]
				if cm == nil {
					continue
				}
				if cm.Top && !ms.Top {
					ms.Top, ms.Why = true, "calls "+relKey(callee)+": "+cm.Why
					changed = true
				}
				if cm.Blocks && !ms.Blocks {
					ms.Blocks, ms.BlockWhy = true, relKey(callee)+" -> "+cm.BlockWhy
					changed = true
				}
				for k := range cm.Maps {
					if ms.add(k) {
						changed = true
					}
				}
			}
		}
	}
}

// callees: static callees, closures created in fn (they may be called by whoever receives them; attributing
// their effects to the creator is a sound over-approximation for calls made while fn or its callees run),
// and CHA targets of interface calls.
func (p *Prog) callees(fn *ssa.Function) []*ssa.Function {
	var out []*ssa.Function
	for _, b := range fn.Blocks {
		for _, in := range b.Instrs {
			if mc, ok := in.(*ssa.MakeClosure); ok {
				out = append(out, mc.Fn.(*ssa.Function))
			}
			ci, ok := in.(ssa.CallInstruction)
			if !ok {
				continue
			}
			if _, isGo := in.(*ssa.Go); isGo {
				continue
			}
			c := ci.Common()
			if sc := c.StaticCallee(); sc != nil {
				out = append(out, sc)
				continue
			}
			if c.IsInvoke() {
				out = append(out, p.chaTargets(c)...)
			} else {
				// call of a function value: any repository function/closure of that signature whose value is taken
				out = append(out, p.funcValueTargets(c.Signature())...)
			}
		}
	}
	return out
}

// funcValueTargets: closed-world resolution of calls through function values: every repository function
// that is used as a value (closure creation or function reference) and has an identical signature.
func (p *Prog) funcValueTargets(sig *types.Signature) []*ssa.Function {
	if p.fvTargets == nil {
		p.fvTargets = map[string][]*ssa.Function{}
		seen := map[*ssa.Function]bool{}
		addF := func(f *ssa.Function) {
			if f == nil || seen[f] || !strings.HasPrefix(fnPkgPath(f), repoPrefix) {
				return
			}
			seen[f] = true
			k := sigKey(f.Signature)
			p.fvTargets[k] = append(p.fvTargets[k], f)
		}
		for _, fn := range p.allFuncs {
			for _, b := range fn.Blocks {
				for _, in := range b.Instrs {
					if mc, ok := in.(*ssa.MakeClosure); ok {
						addF(mc.Fn.(*ssa.Function))
					}
					for _, op := range in.Operands(nil) {
						if f, ok := (*op).(*ssa.Function); ok {
							// a function used as an operand other than the callee position
							if ci, isCall := in.(ssa.CallInstruction); isCall && ci.Common().Value == f {
								continue
							}
							addF(f)
						}
					}
				}
			}
		}
	}
	return p.fvTargets[sigKey(sig)]
}

func sigKey(sig *types.Signature) string {
	// receiver-less signature string
	return types.TypeString(types.NewSignatureType(nil, nil, nil, sig.Params(), sig.Results(), sig.Variadic()), nil)
}

var chaCache = map[string][]*ssa.Function{}

func (p *Prog) chaTargets(c *ssa.CallCommon) []*ssa.Function {
	iface, ok := c.Value.Type().Underlying().(*types.Interface)
	if !ok {
		return nil
	}
	key := types.TypeString(c.Value.Type(), nil) + "." + c.Method.Name()
	if r, ok := chaCache[key]; ok {
		return r
	}
	var out []*ssa.Function
	for path, pk := range p.pkgs {
		if !strings.HasPrefix(path, repoPrefix) || pk.Types == nil {
			continue
		}
		sc := pk.Types.Scope()
		for _, name := range sc.Names() {
			tn, ok := sc.Lookup(name).(*types.TypeName)
			if !ok {
				continue
			}
			if _, isIface := tn.Type().Underlying().(*types.Interface); isIface {
				continue
			}
			for _, t := range []types.Type{tn.Type(), types.NewPointer(tn.Type())} {
				if types.Implements(t, iface) {
					ms := p.prog.MethodSets.MethodSet(t)
					if sel := ms.Lookup(c.Method.Pkg(), c.Method.Name()); sel != nil {
						if f := p.prog.MethodValue(sel); f != nil {
							out = append(out, f)
						}
					}
					break
				}
			}
		}
	}
	chaCache[key] = out
	return out
}

func (p *Prog) directCallEffects(srt *sorter, fn *ssa.Function, in ssa.CallInstruction, ms *ModSet) {
	c := in.Common()
	if _, isGo := in.(*ssa.Go); isGo {
		return
	}
	if b, ok := c.Value.(*ssa.Builtin); ok {
		switch b.Name() {
		case "append", "copy":
			if st, ok := c.Args[0].Type().Underlying().(*types.Slice); ok {
				if b.Name() == "copy" && freshBase(c.Args[0]) {
					break // copying into memory allocated by this very function
				}
				if b.Name() == "append" {
					if k, ok := c.Args[0].(*ssa.Const); ok && k.Value == nil {
						break // append to nil always allocates
					}
				}
				ms.add(memName(srt, st.Elem()))
			}
		case "delete", "clear":
			if mt, ok := c.Args[0].Type().Underlying().(*types.Map); ok {
				tag := mapTag(srt, mt)
				ms.add("MapDom$" + tag)
				ms.add("MapVal$" + tag)
				ms.add("MapLen$" + tag)
			}
		}
		return
	}
	sc := c.StaticCallee()
	if sc == nil {
		if c.IsInvoke() {
			// interface call into non-repo implementations (io.Writer, gRPC streams ...): effects by library contract only
			name := typeName(c.Value.Type()) + "." + c.Method.Name()
			if why, ok := blockingIface[name]; ok {
				ms.Blocks, ms.BlockWhy = true, why
			}
			return
		}
		// call of a function value: resolved closed-world in callees() (funcValueTargets)
		return
	}
	if fnPkgPath(sc) != "" && strings.HasPrefix(fnPkgPath(sc), repoPrefix) {
		return // handled by propagation
	}
	// library: effects on arguments
	name := sc.String()
	if fc, ok := p.libs[name]; ok {
		for _, c := range fc.Clauses {
			if c.Kind == "modifies" || c.Kind == "havocs" {
				for _, loc := range splitTopLevel(c.Text) {
					if _, isG := p.ghostGlobals[strings.TrimSpace(loc)]; isG {
						ms.add("GG$" + strings.TrimSpace(loc))
					}
				}
			}
		}
	}
	if why, ok := blockingLib[name]; ok {
		ms.Blocks, ms.BlockWhy = true, why
	}
	for _, loc := range libWrites(name, c) {
		out := map[string]bool{}
		p.staticLoc(srt, loc, out)
		for k := range out {
			if k != "$TOP" {
				ms.add(k)
			}
		}
	}
	// slices passed to library functions may be written by them (io.ReadFull, binary.Put*, copy-like)
	for _, a := range c.Args {
		if st, ok := a.Type().Underlying().(*types.Slice); ok && libMayWriteSlice(name) {
			ms.add(memName(srt, st.Elem()))
		}
	}
}

var blockingIface = map[string]string{}

// libWrites: pointer arguments a modelled library call writes through.
func libWrites(name string, c *ssa.CallCommon) []ssa.Value {
	switch {
	case strings.HasPrefix(name, "(*sync.Mutex)."), strings.HasPrefix(name, "(*sync.RWMutex)."):
		return c.Args[:1]
	case strings.HasPrefix(name, "sync/atomic.Store"), strings.HasPrefix(name, "sync/atomic.Add"), strings.HasPrefix(name, "sync/atomic.Swap"), strings.HasPrefix(name, "sync/atomic.CompareAndSwap"):
		return c.Args[:1]
	case strings.HasPrefix(name, "(*sync/atomic."):
		if strings.HasSuffix(name, ").Load") {
			return nil
		}
		return c.Args[:1]
	case strings.HasPrefix(name, "(*sync.Once)."), strings.HasPrefix(name, "(*sync.WaitGroup)."):
		return c.Args[:1]
	}
	return nil
}

func libMayWriteSlice(name string) bool {
	switch {
	case strings.HasPrefix(name, "(encoding/binary.littleEndian).Put"), strings.HasPrefix(name, "(encoding/binary.bigEndian).Put"):
		return true
	case name == "io.ReadFull", name == "io.ReadAtLeast", strings.HasSuffix(name, ").Read"), strings.HasSuffix(name, ").ReadAt"):
		return true
	case strings.HasPrefix(name, "sort."), name == "slices.Sort", name == "slices.SortFunc":
		return true
	case name == "crypto/rand.Read", name == "math/rand.Read":
		return true
	}
	return false
}
