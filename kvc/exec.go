package main

import (
	"fmt"
	"go/token"
	"go/types"
	"sort"
	"strings"

	"golang.org/x/tools/go/ssa"
)

type pendingEdge struct {
	from    *Node
	cond    string
	fromBlk *ssa.BasicBlock
}

// runFrame translates all blocks of fr.fn starting from `entry` (whose env is the state at call time,
// with parameters already bound in fr.regs).  For the root frame returns assert the postconditions;
// for inlined frames the exit points are collected in fr.exits.
func (vc *VC) runFrame(fr *Frame, entry *Node) {
	fn := fr.fn
	if len(fn.Blocks) == 0 {
		vc.unsupported("function %s has no body", fn)
		return
	}
	order := rpo(fn)
	heads := loopHeads(fn)
	pend := map[*ssa.BasicBlock][]pendingEdge{}
	pend[fn.Blocks[0]] = []pendingEdge{{entry, "true", nil}}
	done := map[*ssa.BasicBlock]bool{}
	for _, blk := range order {
		var ins []*Edge
		hasPhi := false
		for _, in := range blk.Instrs {
			if _, ok := in.(*ssa.Phi); ok {
				hasPhi = true
			}
		}
		predVar := ""
		if hasPhi {
			predVar = vc.fresh(fr.prefix+".pred", "Int")
			fr.predVar[blk] = predVar
		}
		for _, pe := range pend[blk] {
			e := &Edge{from: pe.from, cond: pe.cond}
			if hasPhi && pe.fromBlk != nil {
				for i, pb := range blk.Preds {
					if pb == pe.fromBlk {
						e.eqs = append(e.eqs, sEq(predVar, fmt.Sprint(i)))
						break
					}
				}
			}
			ins = append(ins, e)
		}
		name := fmt.Sprintf("%s.b%d", fr.prefix, blk.Index)
		var n *Node
		if heads[blk] {
			n = vc.loopHead(fr, blk, ins, name)
		} else {
			n = vc.join(name, ins)
		}
		done[blk] = true
		if n.dead {
			continue
		}
		cur := n
		for _, instr := range blk.Instrs {
			cur = vc.exec(fr, cur, instr)
			if cur == nil {
				break
			}
		}
		if cur == nil {
			continue
		}
		// terminator edges
		switch t := blk.Instrs[len(blk.Instrs)-1].(type) {
		case *ssa.If:
			c := vc.val(fr, t.Cond)
			vc.flow(fr, cur, blk, blk.Succs[0], c, done, pend)
			vc.flow(fr, cur, blk, blk.Succs[1], sNot(c), done, pend)
		case *ssa.Jump:
			vc.flow(fr, cur, blk, blk.Succs[0], "true", done, pend)
		}
	}
}

func (vc *VC) loopKey(fr *Frame, blk *ssa.BasicBlock) string {
	return fmt.Sprintf("%s#%d@%d", fullKey(fr.fn), fr.loopOrd[blk], fr.depth)
}

// flow adds an edge from node `from` to block `to`; back edges assert the loop invariant instead.
func (vc *VC) flow(fr *Frame, from *Node, fromBlk, to *ssa.BasicBlock, cond string, done map[*ssa.BasicBlock]bool, pend map[*ssa.BasicBlock][]pendingEdge) {
	if done[to] {
		// back edge
		key := vc.loopKey(fr, to)
		// record modified variables for the next pass
		head := vc.headEnv[key]
		mods := vc.modsOut[key]
		if mods == nil {
			mods = map[string]bool{}
			vc.modsOut[key] = mods
		}
		for k, v := range from.env {
			if head[k] != v {
				mods[k] = true
			}
		}
		e := &Edge{from: from, cond: cond}
		vc.loopInvariants(fr, to, from, e, "preserve")
		from.out = append(from.out, e)
		return
	}
	pend[to] = append(pend[to], pendingEdge{from, cond, fromBlk})
}

// loopHead joins the entry edges, asserts the invariant on them, havocs the variables the loop body
// modifies (computed by the previous pass) and assumes the invariant.
func (vc *VC) loopHead(fr *Frame, blk *ssa.BasicBlock, ins []*Edge, name string) *Node {
	key := vc.loopKey(fr, blk)
	if len(ins) == 0 {
		n := vc.newNode(name, Env{})
		n.dead = true
		return n
	}
	// pre-head node: join of the entry edges; invariant asserted there
	pre := vc.join(name+".pre", ins)
	e := &Edge{from: pre, cond: "true"}
	vc.loopInvariants(fr, blk, pre, e, "init")
	n := vc.join(name, []*Edge{e})
	if vc.headEnv == nil {
		vc.headEnv = map[string]Env{}
	}
	vc.headEnv[key] = pre.env.clone()
	var mods []string
	for k := range vc.loopMods[key] {
		mods = append(mods, k)
	}
	sort.Strings(mods)
	for _, k := range mods {
		sv, ok := vc.svars[k]
		if !ok {
			continue
		}
		nv := vc.bump(n.env, k)
		if sv.Ty != nil {
			n.assume(vc.valueFact(n.env, nv, sv.Ty))
		}
		if strings.Contains(k, "$rangeindex$") {
			// hidden index of a range loop: starts at -1 and is only incremented while below the length (SSA construction)
			n.assume(sAnd(app("<=", "(- 1)", nv), app("<=", nv, maxLen)))
			// ... and it never passes the length the loop compares against (computed before the loop)
			if iff, ok := blk.Instrs[len(blk.Instrs)-1].(*ssa.If); ok {
				if cmp, ok := iff.Cond.(*ssa.BinOp); ok && cmp.Op == token.LSS {
					if lt, ok := fr.regs[cmp.Y]; ok {
						n.assume(sOr(sEq(nv, "(- 1)"), app("<", nv, lt)))
					}
				}
			}
		}
	}
	// alloc only grows
	if vc.loopMods[key]["alloc"] {
		a := vc.fresh("r", "Int")
		_ = a
		vc.declare("allocmono!"+key, "Bool")
		n.assume(fmt.Sprintf("(forall ((r Int)) (=> (select %s r) (select %s r)))", vc.cur(pre.env, "alloc"), vc.cur(n.env, "alloc")))
	}
	// locks are balanced per iteration: the lock state at the head equals the lock state at loop entry
	// (asserted on every back edge as obligation lock/loop-balanced, assumed here)
	if vc.loopMods[key]["LockSt"] {
		if _, ok := vc.svars["LockSt"]; ok {
			n.assume(sEq(vc.cur(n.env, "LockSt"), vc.cur(pre.env, "LockSt")))
			vc.headLock[key] = pre.env["LockSt"]
		}
	}
	if fr.isRoot && fr.frame != nil && fr.frame.explicit {
		for _, k := range mods {
			if _, ok := vc.svars[k]; ok && vc.framedVar(fr, k) {
				n.assume(vc.frameFormula(fr, n.env, k))
			}
		}
	}
	lc := vc.loopContract(fr, blk)
	if lc == nil && fr.fc != nil && !vc.noInvWarn {
		// loops without invariant in a function under contract: allowed (invariant `true`), but recorded
		vc.used["loop without invariant: "+key] = true
	}
	if lc != nil {
		sc := vc.specCtx(fr, n, n.env)
		sc.atLoop = blk
		sc.pos = loopPos(blk)
		for _, c := range lc.Clauses {
			if c.Kind != "invariant" || (vc.skipT(c.Tags)) {
				continue
			}
			f, err := sc.formula(c.E)
			if err != nil {
				vc.specError(c, err)
				continue
			}
			n.assume(f)
		}
	}
	return n
}

// loopPos: the source position at which a loop invariant is evaluated: the loop condition (head block).
func loopPos(blk *ssa.BasicBlock) token.Pos {
	pos := token.NoPos
	for _, in := range blk.Instrs {
		if in.Pos().IsValid() && in.Pos() > pos {
			pos = in.Pos()
		}
	}
	if iff, ok := blk.Instrs[len(blk.Instrs)-1].(*ssa.If); ok {
		if c, ok := iff.Cond.(ssa.Instruction); ok && c.Pos().IsValid() {
			pos = c.Pos()
		}
	}
	return pos
}

func (vc *VC) loopContract(fr *Frame, blk *ssa.BasicBlock) *LoopContract {
	if fr.fc == nil {
		return nil
	}
	return fr.fc.Loops[fr.loopOrd[blk]]
}

func (vc *VC) specError(c *Clause, err error) {
	vc.specErrs = append(vc.specErrs, fmt.Sprintf("%s:%d: %v", c.File, c.Line, err))
}

func (vc *VC) loopInvariants(fr *Frame, blk *ssa.BasicBlock, at *Node, e *Edge, phase string) {
	if phase == "preserve" {
		if v, ok := vc.headLock[vc.loopKey(fr, blk)]; ok && vc.lockOn {
			ob := vc.newObl(fmt.Sprintf("%s/loop#%d/lock/loop-balanced", relKey(fr.fn), fr.loopOrd[blk]), "lock", vc.lockTags, "every iteration leaves the lock state as it found it", token.NoPos)
			ob.Loc = fmt.Sprintf("e%d.lockbal.%d", at.id, len(at.out))
			e.asserts = append(e.asserts, Cmd{Assert: true, F: sEq(vc.cur(at.env, "LockSt"), verName("LockSt", v)), Ob: ob})
		}
	}
	if phase == "preserve" && fr.isRoot && fr.frame != nil && fr.frame.explicit {
		// implicit frame invariant: the loop body changes only what `modifies` allows
		var mods []string
		for k := range vc.loopMods[vc.loopKey(fr, blk)] {
			mods = append(mods, k)
		}
		sort.Strings(mods)
		for _, k := range mods {
			if _, ok := vc.svars[k]; ok && vc.framedVar(fr, k) {
				f := vc.frameFormula(fr, at.env, k)
				if f == "true" {
					continue
				}
				ob := vc.newObl(fmt.Sprintf("%s/loop#%d/frame/%s", relKey(fr.fn), fr.loopOrd[blk], k), "frame", nil, "loop body changes only locations in modifies: "+k, token.NoPos)
				e.asserts = append(e.asserts, Cmd{Assert: true, F: f, Ob: ob})
			}
		}
	}
	lc := vc.loopContract(fr, blk)
	if lc == nil {
		return
	}
	sc := vc.specCtx(fr, at, at.env)
	sc.atLoop = blk
	sc.pos = loopPos(blk)
	j := 0
	for _, c := range lc.Clauses {
		if c.Kind != "invariant" {
			continue
		}
		j++
		if vc.skipT(c.Tags) {
			continue
		}
		kind := "inv-init"
		if phase == "preserve" {
			kind = "inv-pres"
		}
		lbl := fmt.Sprint(j)
		if c.Label != "" {
			lbl = c.Label
		}
		parts := conjuncts(c.E)
		for k, pe := range parts {
			f, err := sc.formula(pe)
			if err != nil {
				vc.specError(c, err)
				continue
			}
			name := fmt.Sprintf("%s/loop#%d/%s/%s", relKey(fr.fn), fr.loopOrd[blk], phase, lbl)
			text := c.Text
			if len(parts) > 1 {
				name = fmt.Sprintf("%s.%d", name, k+1)
				text = pe.String()
			}
			ob := vc.newObl(name, kind, c.Tags, text, token.NoPos)
			ob.Pos = fmt.Sprintf("%s:%d", strings.TrimPrefix(c.File, "/repo/"), c.Line)
			ob.Loc = fmt.Sprintf("e%d.%s.%d", at.id, phase, len(at.out))
			e.asserts = append(e.asserts, Cmd{Assert: true, F: f, Ob: ob})
		}
	}
}

// ---------------------------------------------------------------- instructions

func (vc *VC) safety(fr *Frame, n *Node, kind string, f string, pos token.Pos) {
	if !vc.safetyOn || fr.depth > 0 {
		// inlined bodies: the callee's own safety is checked when the callee is verified as a root
		return
	}
	if f == "true" {
		return
	}
	vc.counters["safety/"+kind+"/"+relKey(fr.fn)]++
	name := fmt.Sprintf("%s/safety/%s#%d", relKey(fr.fn), kind, vc.counters["safety/"+kind+"/"+relKey(fr.fn)])
	ob := vc.newObl(name, "safety", vc.safetyTags, kind, pos)
	vc.assertAt(n, f, ob)
}

func (vc *VC) exec(fr *Frame, n *Node, instr ssa.Instruction) *Node {
	if instr.Pos().IsValid() {
		fr.curPos = instr.Pos()
	}
	switch in := instr.(type) {
	case *ssa.DebugRef:
		return n
	case *ssa.Alloc:
		vc.execAlloc(fr, n, in)
	case *ssa.UnOp:
		vc.execUnOp(fr, n, in)
	case *ssa.BinOp:
		vc.execBinOp(fr, n, in)
	case *ssa.Store:
		lv := vc.addrOf(fr, n, in.Addr)
		if lv == nil {
			vc.unsupported("%s: store through unmodelled pointer %s", fr.fn, in.Addr.Name())
			vc.havocAll(fr, n, "store through unmodelled pointer")
			return n
		}
		vc.nilCheck(fr, n, lv, in.Pos())
		vc.guardCheck(fr, n, lv, true, in.Pos())
		vc.monotoneCheck(fr, n, lv, vc.val(fr, in.Val), in.Pos())
		if ci, ok := fr.clos[in.Val]; ok {
			if a, isAlloc := in.Addr.(*ssa.Alloc); isAlloc {
				fr.cellClos[a] = ci
			}
		}
		vc.store(n, lv, vc.val(fr, in.Val))
	case *ssa.FieldAddr:
		// nil check at address computation
		lv := vc.addrOf(fr, n, in)
		if lv != nil {
			vc.nilCheck(fr, n, lv, in.Pos())
		}
	case *ssa.IndexAddr:
		switch xt := in.X.Type().Underlying().(type) {
		case *types.Slice:
			s := vc.val(fr, in.X)
			i := vc.val(fr, in.Index)
			vc.safety(fr, n, "index", sAnd(app("<=", "0", i), app("<", i, app("s.len", s))), in.Pos())
		case *types.Pointer:
			arr := xt.Elem().Underlying().(*types.Array)
			i := vc.val(fr, in.Index)
			vc.safety(fr, n, "index", sAnd(app("<=", "0", i), app("<", i, fmt.Sprint(arr.Len()))), in.Pos())
		}
		vc.addrOf(fr, n, in)
	case *ssa.Field:
		x := vc.val(fr, in.X)
		st := in.X.Type()
		f := st.Underlying().(*types.Struct).Field(in.Field)
		vc.define(fr, n, in, app(vc.srt.structAcc(st, f.Name()), x))
	case *ssa.Index:
		x := vc.val(fr, in.X)
		i := vc.val(fr, in.Index)
		switch xt := in.X.Type().Underlying().(type) {
		case *types.Array:
			vc.safety(fr, n, "index", sAnd(app("<=", "0", i), app("<", i, fmt.Sprint(xt.Len()))), in.Pos())
			vc.define(fr, n, in, app("select", x, i))
		default:
			// string indexing
			r := vc.fresh(fr.prefix+"."+in.Name(), "Int")
			vc.safety(fr, n, "index", sAnd(app("<=", "0", i), app("<", i, app("str.len_", x))), in.Pos())
			n.assume(sAnd(app("<=", "0", r), app("<", r, "256")))
			fr.regs[in] = r
		}
	case *ssa.Slice:
		vc.execSlice(fr, n, in)
	case *ssa.Phi:
		// values are equated on incoming edges: approximated by a fresh value constrained per predecessor
		r := vc.fresh(fr.prefix+"."+in.Name(), vc.srt.sortOf(in.Type()))
		fr.regs[in] = r
		vc.phiConstrain(fr, n, in, r)
	case *ssa.MakeInterface:
		x := vc.val(fr, in.X)
		tag := vc.typeTag(in.X.Type())
		var payload string
		if isPointerLike(in.X.Type()) {
			payload = x
			vc.declareFun("isptrtag_", []string{"Int"}, "Bool")
			vc.addAxiom(app("isptrtag_", fmt.Sprint(tag)))
		} else {
			fnm := "box$" + sortTag(vc.srt.sortOf(in.X.Type()))
			vc.declareFun(fnm, []string{vc.srt.sortOf(in.X.Type())}, "Int")
			vc.declareFun("un"+fnm, []string{"Int"}, vc.srt.sortOf(in.X.Type()))
			payload = app(smtName(fnm), x)
			n.assume(sEq(app(smtName("un"+fnm), payload), x))
		}
		vc.define(fr, n, in, app("mk-iface", fmt.Sprint(tag), payload))
		if ci, ok := fr.clos[in.X]; ok {
			fr.clos[in] = ci
		}
	case *ssa.ChangeInterface:
		fr.regs[in] = vc.val(fr, in.X)
	case *ssa.ChangeType:
		fr.regs[in] = vc.val(fr, in.X)
		if ci, ok := fr.clos[in.X]; ok {
			fr.clos[in] = ci
		}
	case *ssa.Convert:
		vc.execConvert(fr, n, in)
	case *ssa.TypeAssert:
		vc.execTypeAssert(fr, n, in)
	case *ssa.Extract:
		tup := fr.tuples[in.Tuple]
		if tup == nil || in.Index >= len(tup) {
			vc.unsupported("%s: extract from unknown tuple %s", fr.fn, in.Tuple.Name())
			fr.regs[in] = vc.fresh("undef", vc.srt.sortOf(in.Type()))
		} else {
			fr.regs[in] = tup[in.Index]
			if ci, ok := fr.tupClos[in.Tuple]; ok && in.Index < len(ci) && ci[in.Index] != nil {
				fr.clos[in] = ci[in.Index]
			}
		}
	case *ssa.MakeSlice:
		l := vc.val(fr, in.Len)
		c := vc.val(fr, in.Cap)
		vc.safety(fr, n, "makeslice", sAnd(app("<=", "0", l), app("<=", l, c)), in.Pos())
		elem := in.Type().Underlying().(*types.Slice).Elem()
		arr := vc.newRef(n, "mk")
		m := vc.memMap(elem)
		n.assume(sEq(app("select", vc.cur(n.env, m.Name), arr), fmt.Sprintf("((as const (Array Int %s)) %s)", vc.srt.sortOf(elem), vc.srt.zeroOf(elem))))
		n.assume(app("<=", c, maxLen))
		vc.define(fr, n, in, app("mk-slice", arr, "0", l, c))
	case *ssa.MakeMap:
		r := vc.newRef(n, "map")
		mt := in.Type().Underlying().(*types.Map)
		dom, _ := vc.mapMaps(mt)
		n.assume(sEq(app("select", vc.cur(n.env, dom.Name), r), fmt.Sprintf("((as const (Array %s Bool)) false)", vc.srt.sortOf(mt.Key()))))
		n.assume(sEq(app("select", vc.cur(n.env, vc.mapLenOf(mt).Name), r), "0"))
		fr.regs[in] = r
	case *ssa.MakeChan:
		fr.regs[in] = vc.newRef(n, "chan")
	case *ssa.MakeClosure:
		fnc := in.Fn.(*ssa.Function)
		ci := &closureInfo{fn: fnc, fr: fr}
		for _, b := range in.Bindings {
			ci.bindings = append(ci.bindings, vc.val(fr, b))
			ci.bindVals = append(ci.bindVals, b)
		}
		fr.clos[in] = ci
		fr.regs[in] = vc.newRef(n, "closure")
	case *ssa.MapUpdate:
		vc.execMapUpdate(fr, n, in)
	case *ssa.Lookup:
		vc.execLookup(fr, n, in)
	case *ssa.Range:
		// iteration state: a ghost "visited" set for maps
		r := vc.fresh(fr.prefix+".range", "Int")
		fr.regs[in] = r
		fr.rangeOf[in] = in.X
	case *ssa.Next:
		vc.execNext(fr, n, in)
	case *ssa.Call:
		return vc.execCall(fr, n, in, &in.Call, in)
	case *ssa.Defer:
		vc.execDefer(fr, n, in)
	case *ssa.Go:
		// spawn: no-op here; the spawned function is a separate entry point (DESIGN 2.7 item 1)
		vc.used["go statement treated as no-op at spawn site (no interleaving explored)"] = true
	case *ssa.RunDefers:
		return vc.runDefers(fr, n)
	case *ssa.Return:
		var rs []string
		for _, r := range in.Results {
			rs = append(rs, vc.val(fr, r))
		}
		fr.exits = append(fr.exits, &exitPoint{n, rs})
		if fr.retPos == token.NoPos {
			fr.retPos = in.Pos()
		}
		return nil
	case *ssa.Panic:
		vc.safety(fr, n, "panic", "false", in.Pos())
		// terminal
		n.cmds = append(n.cmds, Cmd{F: "false"})
		return nil
	case *ssa.If, *ssa.Jump:
		// handled by runFrame
	case *ssa.Send:
		vc.used["channel send modelled as non-blocking no-op"] = true
	case *ssa.Select:
		vc.execSelect(fr, n, in)
	case *ssa.SliceToArrayPointer:
		vc.unsupported("%s: slice to array pointer", fr.fn)
	default:
		vc.unsupported("%s: instruction %T", fr.fn, instr)
		if v, ok := instr.(ssa.Value); ok {
			fr.regs[v] = vc.fresh("undef", vc.srt.sortOf(v.Type()))
		}
	}
	return n
}

func (vc *VC) addAxiom(a string) {
	for _, x := range vc.axioms {
		if x == a {
			return
		}
	}
	vc.axioms = append(vc.axioms, a)
}

func (vc *VC) phiConstrain(fr *Frame, n *Node, phi *ssa.Phi, r string) {
	pv := fr.predVar[phi.Block()]
	for i, e := range phi.Edges {
		if _, isConst := e.(*ssa.Const); !isConst {
			if _, ok := fr.regs[e]; !ok {
				// value from a back edge or unvisited block: unconstrained on that edge
				continue
			}
		}
		n.assume(sImp(sEq(pv, fmt.Sprint(i)), sEq(r, vc.val(fr, e))))
		if ci, ok := fr.clos[e]; ok && len(phi.Edges) == 1 {
			fr.clos[phi] = ci
		}
	}
	n.assume(vc.valueFact(n.env, r, phi.Type()))
}

func (vc *VC) execAlloc(fr *Frame, n *Node, a *ssa.Alloc) {
	t := a.Type().(*types.Pointer).Elem()
	hint := a.Comment
	if hint == "" {
		hint = a.Name()
	}
	switch {
	case isAggregate(t):
		ref := vc.newRef(n, hint)
		lv := &LVal{kind: lvHeap, ref: ref, root: t, typ: t, fresh: true}
		fr.lvs[a] = lv
		fr.regs[a] = ref
		fr.allocFresh[ref] = true
		vc.zeroObject(n, lv)
		vc.zeroGhosts(fr, n, t, ref)
	case isArrayType(t):
		at := t.Underlying().(*types.Array)
		ref := vc.newRef(n, hint)
		m := vc.memMap(at.Elem())
		n.assume(sEq(app("select", vc.cur(n.env, m.Name), ref), vc.srt.zeroOf(t)))
		fr.lvs[a] = &LVal{kind: lvMem, ref: ref, typ: t, fresh: true}
		fr.regs[a] = ref
		fr.allocFresh[ref] = true
	case !escapes(a):
		name := fmt.Sprintf("L$%s$%s$%d", fr.prefix, hint, a.Pos())
		if _, exists := vc.svars[name]; exists {
			vc.counters["localdup"]++
			name = fmt.Sprintf("%s~%d", name, vc.counters["localdup"])
		}
		vc.svar(name, vc.srt.sortOf(t), t)
		fr.localSV[a] = name
		lv := &LVal{kind: lvLocal, sv: name, typ: t}
		fr.lvs[a] = lv
		vc.store(n, lv, vc.srt.zeroOf(t))
	default:
		ref := vc.newRef(n, hint)
		lv := &LVal{kind: lvCell, ref: ref, typ: t, fresh: true}
		fr.lvs[a] = lv
		fr.regs[a] = ref
		fr.allocFresh[ref] = true
		vc.store(n, lv, vc.srt.zeroOf(t))
	}
}

func isArrayType(t types.Type) bool {
	_, ok := t.Underlying().(*types.Array)
	return ok
}

func (vc *VC) nilCheck(fr *Frame, n *Node, lv *LVal, pos token.Pos) {
	if lv.fresh {
		return
	}
	switch lv.kind {
	case lvHeap, lvCell:
		if fr.allocFresh[lv.ref] || strings.HasPrefix(lv.ref, "(sub$") || strings.HasPrefix(lv.ref, "(|sub$") || strings.HasPrefix(lv.ref, "gaddr$") {
			return
		}
		key := "nil:" + lv.ref
		if fr.checkedNil[key] {
			return
		}
		fr.checkedNil[key] = true
		vc.safety(fr, n, "nil", sNot(sEq(lv.ref, "0")), pos)
	}
}

func (vc *VC) execUnOp(fr *Frame, n *Node, u *ssa.UnOp) {
	switch u.Op {
	case token.MUL:
		if g, ok := u.X.(*ssa.Global); ok {
			if t, ok := vc.sentinel(g); ok {
				fr.regs[u] = t
				return
			}
		}
		lv := vc.addrOf(fr, n, u.X)
		if lv == nil {
			vc.unsupported("%s: load through unmodelled pointer %s (%T)", fr.fn, u.X.Name(), u.X)
			r := vc.fresh("undef", vc.srt.sortOf(u.Type()))
			n.assume(vc.valueFact(n.env, r, u.Type()))
			fr.regs[u] = r
			return
		}
		vc.nilCheck(fr, n, lv, u.Pos())
		vc.guardCheck(fr, n, lv, false, u.Pos())
		t := vc.load(n.env, lv)
		vc.define(fr, n, u, t)
		if lv.kind != lvLocal || true {
			n.assume(vc.valueFact(n.env, fr.regs[u], u.Type()))
		}
		if a, ok := u.X.(*ssa.Alloc); ok {
			if ci, ok := fr.cellClos[a]; ok {
				fr.clos[u] = ci
			}
		}
	case token.NOT:
		fr.regs[u] = sNot(vc.val(fr, u.X))
	case token.SUB:
		x := vc.val(fr, u.X)
		if isFloat(u.Type()) {
			fr.regs[u] = app("fp.neg", x)
		} else {
			fr.regs[u] = vc.wrap(app("-", x), u.Type())
		}
	case token.XOR:
		x := vc.val(fr, u.X)
		if _, hi, _, signed, ok := intRange(u.Type()); ok && !signed {
			fr.regs[u] = app("-", app("-", hi, "1"), x)
		} else {
			fr.regs[u] = app("-", app("-", x), "1")
		}
	case token.ARROW:
		vc.used["channel receive modelled as arbitrary value, non-blocking"] = true
		if tup, ok := u.Type().(*types.Tuple); ok {
			v := vc.fresh(fr.prefix+".recv", vc.srt.sortOf(tup.At(0).Type()))
			okb := vc.fresh(fr.prefix+".recvok", "Bool")
			n.assume(vc.valueFact(n.env, v, tup.At(0).Type()))
			fr.tuples[u] = []string{v, okb}
		} else {
			v := vc.fresh(fr.prefix+".recv", vc.srt.sortOf(u.Type()))
			n.assume(vc.valueFact(n.env, v, u.Type()))
			fr.regs[u] = v
		}
	default:
		vc.unsupported("%s: unary op %s", fr.fn, u.Op)
	}
}

// wrap reduces a mathematical integer term into the range of integer type t (two's complement / modular).
func (vc *VC) wrap(term string, t types.Type) string {
	lo, hi, bits, signed, ok := intRange(t)
	if !ok {
		return term
	}
	_ = lo
	if signed {
		half := pow2[bits-1]
		full := pow2[bits]
		return app("-", app("mod", app("+", term, half), full), half)
	}
	return app("mod", term, hi)
}

func (vc *VC) execBinOp(fr *Frame, n *Node, b *ssa.BinOp) {
	x, y := vc.val(fr, b.X), vc.val(fr, b.Y)
	xt := b.X.Type()
	var r string
	switch b.Op {
	case token.EQL, token.NEQ:
		r = vc.equal(fr, n, xt, x, y, b.X, b.Y)
		if b.Op == token.NEQ {
			r = sNot(r)
		}
	case token.LSS, token.LEQ, token.GTR, token.GEQ:
		op := map[token.Token]string{token.LSS: "<", token.LEQ: "<=", token.GTR: ">", token.GEQ: ">="}[b.Op]
		switch {
		case isFloat(xt):
			op = map[token.Token]string{token.LSS: "fp.lt", token.LEQ: "fp.leq", token.GTR: "fp.gt", token.GEQ: "fp.geq"}[b.Op]
			r = app(op, x, y)
		case isString(xt):
			vc.declareFun("str.lt_", []string{"Int", "Int"}, "Bool")
			switch b.Op {
			case token.LSS:
				r = app("str.lt_", x, y)
			case token.GTR:
				r = app("str.lt_", y, x)
			case token.LEQ:
				r = sNot(app("str.lt_", y, x))
			default:
				r = sNot(app("str.lt_", x, y))
			}
		default:
			r = app(op, x, y)
		}
	case token.ADD, token.SUB, token.MUL:
		if isFloat(xt) {
			op := map[token.Token]string{token.ADD: "fp.add", token.SUB: "fp.sub", token.MUL: "fp.mul"}[b.Op]
			r = app(op, "RNE", x, y)
			break
		}
		if isString(xt) {
			r = app("str.cat_", x, y)
			c := vc.fresh(fr.prefix+"."+b.Name(), "Int")
			n.assume(sEq(c, r))
			n.assume(sEq(app("str.len_", c), app("+", app("str.len_", x), app("str.len_", y))))
			fr.regs[b] = c
			return
		}
		op := map[token.Token]string{token.ADD: "+", token.SUB: "-", token.MUL: "*"}[b.Op]
		if b.Op == token.MUL {
			_, xc := b.X.(*ssa.Const)
			_, yc := b.Y.(*ssa.Const)
			if !xc && !yc {
				vc.declareFun("mul_", []string{"Int", "Int"}, "Int")
				op = "mul_"
				vc.used["non-linear multiplication abstracted as uninterpreted function"] = true
			}
		}
		r = vc.arith(fr, n, b, app(op, x, y))
		fr.regs[b] = r
		return
	case token.QUO, token.REM:
		if isFloat(xt) {
			r = app("fp.div", "RNE", x, y)
			break
		}
		vc.safety(fr, n, "divzero", sNot(sEq(y, "0")), b.Pos())
		// Go truncates toward zero; SMT div floors (for positive divisor).  Unsigned or non-negative operands agree.
		if isUnsigned(xt) {
			if b.Op == token.QUO {
				r = app("div", x, y)
			} else {
				r = app("mod", x, y)
			}
		} else {
			q := sIte(app(">=", x, "0"), app("div", x, y), app("-", app("div", app("-", x), y)))
			if b.Op == token.QUO {
				r = vc.wrap(q, b.Type())
			} else {
				r = app("-", x, app("*", y, q))
				if _, yc := b.Y.(*ssa.Const); !yc {
					vc.declareFun("mul_", []string{"Int", "Int"}, "Int")
					r = app("-", x, app("mul_", y, q))
				}
			}
		}
	case token.SHL, token.SHR:
		if c, ok := b.Y.(*ssa.Const); ok {
			if k, ok2 := constInt(c.Value); ok2 && len(k) < 3 {
				var kk int
				fmt.Sscan(k, &kk)
				p := new(bigInt).pow2(kk)
				if b.Op == token.SHL {
					r = vc.wrap(app("*", x, p), b.Type())
				} else {
					r = app("div", x, p)
				}
				break
			}
		}
		r = vc.bitUF(fr, n, b, x, y)
	case token.AND:
		if isBool(xt) {
			r = sAnd(x, y)
			break
		}
		// masks with 2^k-1 constants
		if c, ok := b.Y.(*ssa.Const); ok && !isBool(xt) {
			if k, ok2 := constInt(c.Value); ok2 {
				if m := maskBits(k); m > 0 {
					r = app("mod", x, new(bigInt).pow2(m))
					break
				}
			}
		}
		r = vc.bitUF(fr, n, b, x, y)
	case token.OR, token.XOR, token.AND_NOT:
		if isBool(xt) && b.Op == token.OR {
			r = sOr(x, y)
			break
		}
		r = vc.bitUF(fr, n, b, x, y)
	default:
		vc.unsupported("%s: binary op %s", fr.fn, b.Op)
		r = vc.fresh("undef", vc.srt.sortOf(b.Type()))
	}
	vc.define(fr, n, b, r)
}

type bigInt struct{}

func (bigInt) pow2(k int) string {
	s := "1"
	// decimal doubling
	digits := []byte{1}
	for i := 0; i < k; i++ {
		carry := byte(0)
		for j := range digits {
			d := digits[j]*2 + carry
			digits[j] = d % 10
			carry = d / 10
		}
		if carry > 0 {
			digits = append(digits, carry)
		}
	}
	var sb strings.Builder
	for j := len(digits) - 1; j >= 0; j-- {
		sb.WriteByte('0' + digits[j])
	}
	s = sb.String()
	return s
}

func maskBits(dec string) int {
	// returns k if dec == 2^k - 1
	for k := 1; k <= 64; k++ {
		p := bigInt{}.pow2(k)
		// p - 1
		if decMinusOne(p) == dec {
			return k
		}
	}
	return 0
}

func decMinusOne(p string) string {
	b := []byte(p)
	i := len(b) - 1
	for i >= 0 && b[i] == '0' {
		b[i] = '9'
		i--
	}
	if i >= 0 {
		b[i]--
	}
	s := strings.TrimLeft(string(b), "0")
	if s == "" {
		s = "0"
	}
	return s
}

func (vc *VC) bitUF(fr *Frame, n *Node, b *ssa.BinOp, x, y string) string {
	name := "bit" + map[token.Token]string{token.AND: "and", token.OR: "or", token.XOR: "xor", token.SHL: "shl", token.SHR: "shr", token.AND_NOT: "andnot"}[b.Op] + "_"
	vc.declareFun(name, []string{"Int", "Int"}, "Int")
	vc.used["bit operation "+name+" abstracted as uninterpreted function with range"] = true
	r := vc.fresh(fr.prefix+"."+b.Name(), "Int")
	n.assume(sEq(r, app(name, x, y)))
	n.assume(vc.srt.typeFact(r, b.Type()))
	if b.Op == token.OR {
		// x|y >= x, >= y for unsigned
		if isUnsigned(b.Type()) {
			n.assume(sAnd(app(">=", r, x), app(">=", r, y)))
		}
	}
	if b.Op == token.AND && isUnsigned(b.Type()) {
		n.assume(sAnd(app("<=", r, x), app("<=", r, y)))
	}
	if b.Op == token.SHR && isUnsigned(b.Type()) {
		n.assume(app("<=", r, x))
	}
	return r
}

// arith: + - * with Go's wrap-around semantics; the wrap is emitted unless the operands' static
// intervals show the exact result fits the type.
func (vc *VC) arith(fr *Frame, n *Node, b *ssa.BinOp, exact string) string {
	t := b.Type()
	if _, _, _, _, ok := intRange(t); !ok {
		return exact
	}
	if vc.fits(fr, b) {
		c := vc.fresh(fr.prefix+"."+b.Name(), "Int")
		n.assume(sEq(c, exact))
		return c
	}
	c := vc.fresh(fr.prefix+"."+b.Name(), "Int")
	n.assume(sEq(c, vc.wrap(exact, t)))
	return c
}

// fits: conservative static interval check (lengths are within [0, 2^48], small constants, loop counters unknown).
func (vc *VC) fits(fr *Frame, b *ssa.BinOp) bool {
	lo, hi, ok := vc.interval(fr, b, 0)
	if !ok {
		return false
	}
	_, _, bits, signed, _ := intRange(b.Type())
	if signed {
		lim := float64(uint64(1) << uint(bits-1))
		return lo >= -lim && hi < lim
	}
	lim := float64(uint64(1)<<uint(bits-1)) * 2
	return lo >= 0 && hi < lim
}

func (vc *VC) interval(fr *Frame, v ssa.Value, depth int) (lo, hi float64, ok bool) {
	if depth > 8 {
		return 0, 0, false
	}
	switch v := v.(type) {
	case *ssa.Const:
		if v.Value == nil {
			return 0, 0, true
		}
		if s, ok2 := constInt(v.Value); ok2 {
			var f float64
			s = strings.Trim(strings.Replace(s, "(- ", "-", 1), ")")
			fmt.Sscan(s, &f)
			return f, f, true
		}
	case *ssa.Call:
		if bi, ok2 := v.Call.Value.(*ssa.Builtin); ok2 && (bi.Name() == "len" || bi.Name() == "cap") {
			return 0, 281474976710656, true
		}
		if bi, ok2 := v.Call.Value.(*ssa.Builtin); ok2 && (bi.Name() == "min" || bi.Name() == "max") {
			lo, hi = 1e300, -1e300
			for _, a := range v.Call.Args {
				l, h, ok3 := vc.interval(fr, a, depth+1)
				if !ok3 {
					return 0, 0, false
				}
				if l < lo {
					lo = l
				}
				if h > hi {
					hi = h
				}
			}
			return lo, hi, true
		}
	case *ssa.Convert:
		l, h, ok2 := vc.interval(fr, v.X, depth+1)
		if ok2 {
			_, _, bits, signed, ok3 := intRange(v.Type())
			if ok3 {
				var tl, th float64
				if signed {
					tl, th = -float64(uint64(1)<<uint(bits-1)), float64(uint64(1)<<uint(bits-1))-1
				} else {
					tl, th = 0, float64(uint64(1)<<uint(bits-1))*2-1
				}
				if l >= tl && h <= th {
					return l, h, true
				}
				return tl, th, true
			}
		}
		if _, _, bits, signed, ok3 := intRange(v.Type()); ok3 && bits < 64 {
			if signed {
				return -float64(uint64(1) << uint(bits-1)), float64(uint64(1)<<uint(bits-1)) - 1, true
			}
			return 0, float64(uint64(1)<<uint(bits)) - 1, true
		}
	case *ssa.BinOp:
		xl, xh, ok1 := vc.interval(fr, v.X, depth+1)
		yl, yh, ok2 := vc.interval(fr, v.Y, depth+1)
		if ok1 && ok2 {
			switch v.Op {
			case token.ADD:
				return xl + yl, xh + yh, true
			case token.SUB:
				return xl - yh, xh - yl, true
			case token.MUL:
				c := []float64{xl * yl, xl * yh, xh * yl, xh * yh}
				sort.Float64s(c)
				return c[0], c[3], true
			}
		}
	case *ssa.UnOp:
		if v.Op == token.MUL {
			// load: use the type's range if narrow
			if _, _, bits, signed, ok3 := intRange(v.Type()); ok3 && bits < 64 {
				if signed {
					return -float64(uint64(1) << uint(bits-1)), float64(uint64(1)<<uint(bits-1)) - 1, true
				}
				return 0, float64(uint64(1)<<uint(bits)) - 1, true
			}
		}
	}
	if _, _, bits, signed, ok3 := intRange(v.Type()); ok3 && bits < 64 {
		if signed {
			return -float64(uint64(1) << uint(bits-1)), float64(uint64(1)<<uint(bits-1)) - 1, true
		}
		return 0, float64(uint64(1)<<uint(bits)) - 1, true
	}
	return 0, 0, false
}

func (vc *VC) equal(fr *Frame, n *Node, t types.Type, x, y string, xv, yv ssa.Value) string {
	switch types.Unalias(t).Underlying().(type) {
	case *types.Slice:
		// only comparison with nil is legal
		if c, ok := yv.(*ssa.Const); ok && c.Value == nil {
			return sEq(app("s.arr", x), "0")
		}
		return sEq(app("s.arr", y), "0")
	case *types.Interface:
		if c, ok := yv.(*ssa.Const); ok && c.Value == nil {
			return sEq(app("i.tag", x), "0")
		}
		if c, ok := xv.(*ssa.Const); ok && c.Value == nil {
			return sEq(app("i.tag", y), "0")
		}
		return sEq(x, y)
	}
	if isFloat(t) {
		return app("fp.eq", x, y)
	}
	return sEq(x, y)
}

func (vc *VC) execSlice(fr *Frame, n *Node, s *ssa.Slice) {
	lo, hi := "0", ""
	if s.Low != nil {
		lo = vc.val(fr, s.Low)
	}
	if s.High != nil {
		hi = vc.val(fr, s.High)
	}
	switch xt := s.X.Type().Underlying().(type) {
	case *types.Slice:
		x := vc.val(fr, s.X)
		if hi == "" {
			hi = app("s.len", x)
		}
		mx := app("s.cap", x)
		if s.Max != nil {
			mx = vc.val(fr, s.Max)
			vc.safety(fr, n, "slice", sAnd(app("<=", hi, mx), app("<=", mx, app("s.cap", x))), s.Pos())
		}
		vc.safety(fr, n, "slice", sAnd(app("<=", "0", lo), app("<=", lo, hi), app("<=", hi, app("s.cap", x))), s.Pos())
		vc.define(fr, n, s, app("mk-slice", app("s.arr", x), app("+", app("s.off", x), lo), app("-", hi, lo), app("-", mx, lo)))
		n.assume(vc.srt.typeFact(fr.regs[s], s.Type()))
	case *types.Basic: // string
		x := vc.val(fr, s.X)
		if hi == "" {
			hi = app("str.len_", x)
		}
		vc.safety(fr, n, "slice", sAnd(app("<=", "0", lo), app("<=", lo, hi), app("<=", hi, app("str.len_", x))), s.Pos())
		vc.declareFun("str.sub_", []string{"Int", "Int", "Int"}, "Int")
		r := vc.fresh(fr.prefix+"."+s.Name(), "Int")
		n.assume(sEq(r, app("str.sub_", x, lo, hi)))
		n.assume(sEq(app("str.len_", r), app("-", hi, lo)))
		fr.regs[s] = r
	case *types.Pointer: // pointer to array
		at := xt.Elem().Underlying().(*types.Array)
		lv := vc.addrOf(fr, n, s.X)
		ln := fmt.Sprint(at.Len())
		if hi == "" {
			hi = ln
		}
		vc.safety(fr, n, "slice", sAnd(app("<=", "0", lo), app("<=", lo, hi), app("<=", hi, ln)), s.Pos())
		if lv == nil || lv.kind != lvMem || len(lv.idx) > 0 {
			vc.unsupported("%s: slicing an array that is not a plain variable", fr.fn)
			r := vc.fresh("undef", "Slice")
			n.assume(vc.srt.typeFact(r, s.Type()))
			fr.regs[s] = r
			return
		}
		vc.define(fr, n, s, app("mk-slice", lv.ref, lo, app("-", hi, lo), app("-", ln, lo)))
	}
}

func (vc *VC) execConvert(fr *Frame, n *Node, c *ssa.Convert) {
	x := vc.val(fr, c.X)
	from, to := c.X.Type(), c.Type()
	switch {
	case isInteger(from) && isInteger(to):
		lo, hi, ok := vc.interval(fr, c.X, 0)
		_, _, bits, signed, _ := intRange(to)
		fitsT := false
		if ok {
			if signed {
				lim := float64(uint64(1) << uint(bits-1))
				fitsT = lo >= -lim && hi < lim
			} else {
				fitsT = lo >= 0 && hi < float64(uint64(1)<<uint(bits-1))*2
			}
		}
		// same-range conversions need no wrap
		flo, fhi, fbits, fsigned, _ := intRange(from)
		_, _ = flo, fhi
		if fsigned == signed && fbits <= bits {
			fitsT = true
		}
		if !fsigned && signed && fbits < bits {
			fitsT = true
		}
		if fitsT {
			fr.regs[c] = x
		} else {
			vc.define(fr, n, c, vc.wrap(x, to))
		}
	case isInteger(from) && isFloat(to):
		vc.define(fr, n, c, app("(_ to_fp 11 53)", "RNE", app("to_real", x)))
	case isFloat(from) && isInteger(to):
		r := vc.fresh(fr.prefix+"."+c.Name(), "Int")
		n.assume(vc.srt.typeFact(r, to))
		vc.used["float to int conversion abstracted"] = true
		fr.regs[c] = r
	case isFloat(from) && isFloat(to):
		fr.regs[c] = x
	case isString(to) && isByteSlice(from):
		// string(b) and the abstract content bstr(b) are the same identity
		r := vc.fresh(fr.prefix+"."+c.Name(), "Int")
		n.assume(sEq(r, vc.bstrUse(n, x, n.env)))
		n.assume(sEq(app("str.len_", r), app("s.len", x)))
		fr.regs[c] = r
	case isByteSlice(to) && isString(from):
		arr := vc.newRef(n, "s2b")
		r := vc.fresh(fr.prefix+"."+c.Name(), "Slice")
		n.assume(sEq(r, app("mk-slice", sIte(sEq(app("str.len_", x), "0"), "0", arr), "0", app("str.len_", x), app("str.len_", x))))
		fr.regs[c] = r
		m := vc.memMap(types.Typ[types.Byte])
		n.assume(sEq(app("str.ofbytes_", app("select", vc.cur(n.env, m.Name), arr), "0", app("str.len_", x)), x))
	case isString(to) && isInteger(from):
		r := vc.fresh(fr.prefix+"."+c.Name(), "Int")
		fr.regs[c] = r
	case isPointerLike(from) && isPointerLike(to):
		fr.regs[c] = x
		if lv, ok := fr.lvs[c.X]; ok {
			fr.lvs[c] = lv
		} else if lv := vc.addrOf(fr, n, c.X); lv != nil {
			fr.lvs[c] = lv
		}
	default:
		vc.unsupported("%s: conversion %s -> %s", fr.fn, from, to)
		fr.regs[c] = vc.fresh("undef", vc.srt.sortOf(to))
	}
}

func isByteSlice(t types.Type) bool {
	s, ok := t.Underlying().(*types.Slice)
	if !ok {
		return false
	}
	b, ok := s.Elem().Underlying().(*types.Basic)
	return ok && (b.Kind() == types.Uint8)
}

func (vc *VC) implementsTags(t types.Type) []int {
	// tags (known so far) whose type is assignable to t
	var out []int
	for i, tt := range vc.tagTypes {
		if types.AssignableTo(tt, t) {
			out = append(out, i+1)
		}
	}
	return out
}

func (vc *VC) execTypeAssert(fr *Frame, n *Node, ta *ssa.TypeAssert) {
	x := vc.val(fr, ta.X)
	var okf string
	var val string
	if _, isIface := ta.AssertedType.Underlying().(*types.Interface); isIface {
		// interface-to-interface: holds iff dynamic type implements; abstract as UF of tag
		fnm := "impl$" + typeName(ta.AssertedType)
		vc.declareFun(fnm, []string{"Int"}, "Bool")
		vc.implIfaces[fnm] = ta.AssertedType.Underlying().(*types.Interface)
		okf = sAnd(sNot(sEq(app("i.tag", x), "0")), app(smtName(fnm), app("i.tag", x)))
		val = x
		// known concrete tags
		for _, tt := range vc.tagTypes {
			if types.Implements(tt, ta.AssertedType.Underlying().(*types.Interface)) {
				vc.addAxiom(app(smtName(fnm), fmt.Sprint(vc.typeTag(tt))))
			} else {
				vc.addAxiom(sNot(app(smtName(fnm), fmt.Sprint(vc.typeTag(tt)))))
			}
		}
	} else {
		tag := vc.typeTag(ta.AssertedType)
		okf = sEq(app("i.tag", x), fmt.Sprint(tag))
		if isPointerLike(ta.AssertedType) {
			val = app("i.val", x)
		} else {
			fnm := "box$" + sortTag(vc.srt.sortOf(ta.AssertedType))
			vc.declareFun(fnm, []string{vc.srt.sortOf(ta.AssertedType)}, "Int")
			vc.declareFun("un"+fnm, []string{"Int"}, vc.srt.sortOf(ta.AssertedType))
			val = app(smtName("un"+fnm), app("i.val", x))
		}
	}
	if ta.CommaOk {
		okc := vc.fresh(fr.prefix+"."+ta.Name()+".ok", "Bool")
		n.assume(sEq(okc, okf))
		v := vc.fresh(fr.prefix+"."+ta.Name(), vc.srt.sortOf(ta.AssertedType))
		n.assume(sImp(okc, sEq(v, val)))
		n.assume(sImp(sNot(okc), sEq(v, vc.srt.zeroOf(ta.AssertedType))))
		n.assume(vc.valueFact(n.env, v, ta.AssertedType))
		fr.tuples[ta] = []string{v, okc}
	} else {
		vc.safety(fr, n, "typeassert", okf, ta.Pos())
		vc.define(fr, n, ta, val)
		n.assume(vc.valueFact(n.env, fr.regs[ta], ta.AssertedType))
	}
}

// ---------------------------------------------------------------- maps

func mapTag(srt *sorter, mt *types.Map) string {
	return typeName(mt)
}

func (vc *VC) mapMaps(mt *types.Map) (dom, val *SVar) {
	ks, vs := vc.srt.sortOf(mt.Key()), vc.srt.sortOf(mt.Elem())
	tag := mapTag(vc.srt, mt)
	dom = vc.svar("MapDom$"+tag, "(Array Int (Array "+ks+" Bool))", nil)
	val = vc.svar("MapVal$"+tag, "(Array Int (Array "+ks+" "+vs+"))", nil)
	return
}

func (vc *VC) mapLenOf(mt *types.Map) *SVar {
	return vc.svar("MapLen$"+mapTag(vc.srt, mt), "(Array Int Int)", nil)
}

func (vc *VC) execMapUpdate(fr *Frame, n *Node, mu *ssa.MapUpdate) {
	m := vc.val(fr, mu.Map)
	k := vc.val(fr, mu.Key)
	v := vc.val(fr, mu.Value)
	mt := mu.Map.Type().Underlying().(*types.Map)
	dom, val := vc.mapMaps(mt)
	vc.safety(fr, n, "nilmap", sNot(sEq(m, "0")), mu.Pos())
	vc.guardCheckMap(fr, n, mu.Map, true, mu.Pos())
	od, ov := vc.cur(n.env, dom.Name), vc.cur(n.env, val.Name)
	ol := vc.cur(n.env, vc.mapLenOf(mt).Name)
	nd := vc.bump(n.env, dom.Name)
	nv := vc.bump(n.env, val.Name)
	nl := vc.bump(n.env, vc.mapLenOf(mt).Name)
	n.assume(sEq(nd, app("store", od, m, app("store", app("select", od, m), k, "true"))))
	n.assume(sEq(nv, app("store", ov, m, app("store", app("select", ov, m), k, v))))
	n.assume(sEq(nl, app("store", ol, m, sIte(app("select", app("select", od, m), k), app("select", ol, m), app("+", app("select", ol, m), "1")))))
}

func (vc *VC) execLookup(fr *Frame, n *Node, l *ssa.Lookup) {
	if mt, ok := l.X.Type().Underlying().(*types.Map); ok {
		m := vc.val(fr, l.X)
		k := vc.val(fr, l.Index)
		dom, val := vc.mapMaps(mt)
		vc.guardCheckMap(fr, n, l.X, false, l.Pos())
		in := sAnd(sNot(sEq(m, "0")), app("select", app("select", vc.cur(n.env, dom.Name), m), k))
		v := vc.fresh(fr.prefix+"."+l.Name(), vc.srt.sortOf(mt.Elem()))
		n.assume(sEq(v, sIte(in, app("select", app("select", vc.cur(n.env, val.Name), m), k), vc.srt.zeroOf(mt.Elem()))))
		n.assume(vc.valueFact(n.env, v, mt.Elem()))
		if l.CommaOk {
			okc := vc.fresh(fr.prefix+"."+l.Name()+".ok", "Bool")
			n.assume(sEq(okc, in))
			fr.tuples[l] = []string{v, okc}
		} else {
			fr.regs[l] = v
		}
		return
	}
	// string index
	r := vc.fresh(fr.prefix+"."+l.Name(), "Int")
	n.assume(sAnd(app("<=", "0", r), app("<", r, "256")))
	fr.regs[l] = r
}

func (vc *VC) execNext(fr *Frame, n *Node, nx *ssa.Next) {
	okc := vc.fresh(fr.prefix+"."+nx.Name()+".ok", "Bool")
	tup := nx.Type().(*types.Tuple)
	k := vc.fresh(fr.prefix+"."+nx.Name()+".k", vc.srt.sortOf(tup.At(1).Type()))
	v := vc.fresh(fr.prefix+"."+nx.Name()+".v", vc.srt.sortOf(tup.At(2).Type()))
	if rng, ok := nx.Iter.(*ssa.Range); ok && !nx.IsString {
		if mt, ok := rng.X.Type().Underlying().(*types.Map); ok {
			m := vc.val(fr, rng.X)
			dom, val := vc.mapMaps(mt)
			vc.guardCheckMap(fr, n, rng.X, false, nx.Pos())
			if b, isB := tup.At(1).Type().(*types.Basic); !(isB && b.Kind() == types.Invalid) {
				n.assume(sImp(okc, sAnd(sNot(sEq(m, "0")), app("select", app("select", vc.cur(n.env, dom.Name), m), k))))
			}
			if b, isB := tup.At(2).Type().(*types.Basic); !(isB && b.Kind() == types.Invalid) {
				n.assume(sImp(okc, sEq(v, app("select", app("select", vc.cur(n.env, val.Name), m), k))))
			}
			// an empty or nil map yields nothing
			n.assume(sImp(sOr(sEq(m, "0"), sEq(app("select", vc.cur(n.env, vc.mapLenOf(mt).Name), m), "0")), sNot(okc)))
		}
	}
	n.assume(vc.valueFact(n.env, k, tup.At(1).Type()))
	n.assume(vc.valueFact(n.env, v, tup.At(2).Type()))
	fr.tuples[nx] = []string{okc, k, v}
}

func (vc *VC) execSelect(fr *Frame, n *Node, s *ssa.Select) {
	vc.used["select modelled as nondeterministic choice, channel values arbitrary"] = true
	idx := vc.fresh(fr.prefix+".sel", "Int")
	lo := "0"
	if !s.Blocking {
		lo = "(- 1)"
	}
	n.assume(sAnd(app("<=", lo, idx), app("<", idx, fmt.Sprint(len(s.States)))))
	tup := []string{idx, vc.fresh(fr.prefix+".selok", "Bool")}
	tt := s.Type().(*types.Tuple)
	for i := 2; i < tt.Len(); i++ {
		v := vc.fresh(fr.prefix+".selv", vc.srt.sortOf(tt.At(i).Type()))
		n.assume(vc.valueFact(n.env, v, tt.At(i).Type()))
		tup = append(tup, v)
	}
	fr.tuples[s] = tup
}

// zeroGhosts: the ghost fields of a freshly allocated object start at their default (empty set, 0, nil, false) - like
// its real fields.
func (vc *VC) zeroGhosts(fr *Frame, n *Node, t types.Type, ref string) {
	owner := typeName(t)
	for key, g := range vc.p.ghosts {
		if !strings.HasPrefix(key, owner+".") || key != owner+"."+g.Name {
			continue
		}
		sc := vc.specCtx(fr, n, n.env)
		v, err := sc.ghostField(g, owner, ref)
		if err != nil || v.LV == nil {
			continue
		}
		var zero string
		switch {
		case v.Sort == "Int":
			zero = "0"
		case v.Sort == "Bool":
			zero = "false"
		case v.Sort == "(Array Int Bool)":
			zero = "((as const (Array Int Bool)) false)"
		default:
			continue // maps and other spec sorts: no default
		}
		n.assume(sEq(app("select", vc.cur(n.env, v.LV.sv), ref), zero))
	}
}
