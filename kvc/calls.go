package main

import (
	"fmt"
	"go/token"
	"go/types"
	"sort"
	"strings"

	"golang.org/x/tools/go/ssa"
)

const (
	inlineMaxInstrs = 60
	inlineMaxDepth  = 3
)

func (vc *VC) bindResult(fr *Frame, n *Node, res ssa.Value, terms []string) {
	if res == nil {
		return
	}
	if tup, ok := res.Type().(*types.Tuple); ok {
		if tup.Len() != len(terms) {
			vc.unsupported("%s: result arity mismatch at %s", fr.fn, res.Name())
			terms = nil
			for i := 0; i < tup.Len(); i++ {
				terms = append(terms, vc.fresh("undef", vc.srt.sortOf(tup.At(i).Type())))
			}
		}
		fr.tuples[res] = terms
		return
	}
	if len(terms) == 1 {
		fr.regs[res] = terms[0]
	}
}

func resultTypes(sig *types.Signature) []types.Type {
	var out []types.Type
	for i := 0; i < sig.Results().Len(); i++ {
		out = append(out, sig.Results().At(i).Type())
	}
	return out
}

// havocResults creates arbitrary, well-typed results.
func (vc *VC) havocResults(fr *Frame, n *Node, sig *types.Signature, hint string) []string {
	var out []string
	for i, t := range resultTypes(sig) {
		r := vc.fresh(fmt.Sprintf("%s.%s.r%d", fr.prefix, hint, i), vc.srt.sortOf(t))
		n.assume(vc.valueFact(n.env, r, t))
		out = append(out, r)
	}
	return out
}

func (vc *VC) execCall(fr *Frame, n *Node, instr ssa.Instruction, call *ssa.CallCommon, res ssa.Value) *Node {
	if b, ok := call.Value.(*ssa.Builtin); ok {
		vc.execBuiltin(fr, n, b, call, res, instr.Pos())
		return n
	}
	var args []string
	for _, a := range call.Args {
		args = append(args, vc.val(fr, a))
	}
	if call.IsInvoke() {
		return vc.callInvoke(fr, n, call, res, args, instr.Pos())
	}
	callee := call.StaticCallee()
	var ci *closureInfo
	if callee == nil {
		if c, ok := fr.clos[call.Value]; ok {
			ci = c
			callee = c.fn
		}
	} else if mc, ok := call.Value.(*ssa.MakeClosure); ok {
		ci = fr.clos[mc]
	}
	if callee == nil {
		// unknown function value: closed-world targets (every repository function of that signature used as a value)
		// a value of a named function type with a contract `T.call`: abstract procedure
		if nt, ok := types.Unalias(call.Value.Type()).(*types.Named); ok {
			if fc, ok := vc.p.ifaceContracts[typeName(nt)+".call"]; ok {
				akey := nt.Obj().Name() + ".call"
				fr.callOrd["@"+akey]++
				aord := fr.callOrd["@"+akey]
				fr.ghostArgs = map[string]Val{}
				vc.ghostAt(fr, n, "before", akey, aord)
				vc.callFuncTypeContract(fr, n, fc, call, res, vc.val(fr, call.Value), args, instr.Pos(), typeName(nt)+".call")
				vc.ghostAt(fr, n, "after", akey, aord, res)
				return n
			}
		}
		dkey := dynCallName(call.Value)
		fr.callOrd["@dyn "+dkey]++
		dord := fr.callOrd["@dyn "+dkey]
		fr.ghostArgs = map[string]Val{}
		vc.ghostAt(fr, n, "before", dkey, dord)
		defer func() { vc.ghostAt(fr, n, "after", dkey, dord, res) }()
		targets := vc.p.funcValueTargets(call.Signature())
		vc.used["calls through function values resolved closed-world over ./pkg/... and ./cmd/kevo (functions of identical signature whose value is taken)"] = true
		maps := map[string]bool{}
		top := false
		for _, t := range targets {
			if ms := vc.p.autoMods[t]; ms != nil {
				if ms.Top {
					top = true
				}
				for k := range ms.Maps {
					maps[k] = true
				}
			}
		}
		if top {
			vc.havocAll(fr, n, "call of function value")
		} else {
			var names []string
			for k := range maps {
				names = append(names, k)
			}
			sort.Strings(names)
			vc.havocMaps(n, names)
		}
		vc.bindResult(fr, n, res, vc.havocResults(fr, n, call.Signature(), "dyn"))
		return n
	}
	return vc.callStatic(fr, n, callee, ci, call, res, args, instr.Pos())
}

// dynCallName: anchor name of a call through a function value = the source name of the variable/parameter holding it.
func dynCallName(v ssa.Value) string {
	switch v := v.(type) {
	case *ssa.Parameter:
		return v.Name()
	case *ssa.UnOp:
		if a, ok := v.X.(*ssa.Alloc); ok && a.Comment != "" {
			return a.Comment
		}
		if fv, ok := v.X.(*ssa.FreeVar); ok {
			return fv.Name()
		}
		if fa, ok := v.X.(*ssa.FieldAddr); ok {
			st := fa.X.Type().Underlying().(*types.Pointer).Elem().Underlying().(*types.Struct)
			return "." + st.Field(fa.Field).Name()
		}
	}
	return "?"
}

func (vc *VC) isRepoFn(fn *ssa.Function) bool {
	return strings.HasPrefix(fnPkgPath(fn), repoPrefix)
}

func (vc *VC) callStatic(fr *Frame, n *Node, callee *ssa.Function, ci *closureInfo, call *ssa.CallCommon, res ssa.Value, args []string, pos token.Pos) *Node {
	if !vc.isRepoFn(callee) {
		vc.libCall(fr, n, callee, call, res, args, pos)
		return n
	}
	if strings.HasSuffix(fnPkgPath(callee), "/pkg/common/log") {
		vc.used["repository logging package pkg/common/log: calls have no effect on modelled state (assumed)"] = true
		vc.bindResult(fr, n, res, vc.havocResults(fr, n, callee.Signature, "log"))
		return n
	}
	key := relKey(callee)
	fr.callOrd[key]++
	ord := fr.callOrd[key]
	fr.ghostArgs = map[string]Val{}
	for i, p := range callee.Params {
		if i < len(args) {
			fr.ghostArgs[p.Name()] = Val{T: args[i], Ty: p.Type()}
		}
	}
	gargs := fr.ghostArgs
	vc.ghostAt(fr, n, "before", key, ord)
	fc := vc.p.contracts[callee]
	var out *Node
	if callee.Signature.Recv() != nil && len(args) > 0 {
		if _, isPtr := callee.Params[0].Type().Underlying().(*types.Pointer); isPtr && !fr.allocFresh[args[0]] {
			vc.safety(fr, n, "nil", sNot(sEq(args[0], "0")), pos)
		}
	}
	inl := !(fc != nil && !fc.Inline && hasSpecClauses(fc)) && vc.canInline(fr, callee, fc)
	if !inl {
		vc.assertLockReqs(fr, n, callee, args, pos, ord)
	}
	switch {
	case fc != nil && !fc.Inline && hasSpecClauses(fc):
		vc.callByContract(fr, n, callee, fc, ci, call, res, args, pos, ord)
		out = n
	case vc.canInline(fr, callee, fc):
		out = vc.inlineCall(fr, n, callee, ci, call, res, args)
	default:
		vc.callByFrame(fr, n, callee, call, res)
		out = n
	}
	if out != nil {
		fr.ghostArgs = gargs
		vc.ghostAt(fr, out, "after", key, ord, res)
	}
	return out
}

func hasSpecClauses(fc *FuncContract) bool {
	for _, c := range fc.Clauses {
		switch c.Kind {
		case "requires", "ensures", "modifies":
			return true
		}
	}
	return false
}

func (vc *VC) canInline(fr *Frame, callee *ssa.Function, fc *FuncContract) bool {
	if len(callee.Blocks) == 0 || fr.depth >= inlineMaxDepth {
		return false
	}
	for f := fr; f != nil; f = f.parent {
		if f.fn == callee {
			return false
		}
	}
	if fc != nil && fc.Inline {
		return true
	}
	if vc.noAutoInline {
		return false
	}
	cnt := 0
	for _, b := range callee.Blocks {
		cnt += len(b.Instrs)
	}
	if cnt > inlineMaxInstrs {
		return false
	}
	if len(loopHeads(callee)) > 0 {
		return false
	}
	return true
}

// callByFrame: callee without contract and not inlined: havoc its inferred frame, results arbitrary.
func (vc *VC) callByFrame(fr *Frame, n *Node, callee *ssa.Function, call *ssa.CallCommon, res ssa.Value) {
	ms := vc.p.autoMods[callee]
	if ms == nil || ms.Top {
		why := "no frame"
		if ms != nil {
			why = ms.Why
		}
		vc.havocAll(fr, n, "call "+relKey(callee)+" ("+why+")")
	} else {
		vc.havocMaps(n, ms.sorted())
	}
	vc.bindResult(fr, n, res, vc.havocResults(fr, n, call.Signature(), callee.Name()))
}

func (vc *VC) havocMaps(n *Node, names []string) {
	pre := n.env.clone()
	for _, k := range names {
		if vc.p.lockMaps[k] {
			continue // callees are lock-neutral (each is checked for balance when verified with locks on)
		}
		if _, ok := vc.svars[k]; ok {
			vc.bump(n.env, k)
		} else {
			vc.lateVars[k] = true
		}
	}
	vc.allocMono(n, pre)
}

func (vc *VC) allocMono(n *Node, pre Env) {
	vc.allocVar()
	old := vc.cur(pre, "alloc")
	nv := vc.bump(n.env, "alloc")
	n.assume(fmt.Sprintf("(forall ((r Int)) (! (=> (select %s r) (select %s r)) :pattern ((select %s r))))", old, nv, nv))
}

// havocAll: every non-local state variable gets a new version.
func (vc *VC) havocAll(fr *Frame, n *Node, why string) {
	vc.used["total havoc: "+why] = true
	pre := n.env.clone()
	var names []string
	for k := range vc.svars {
		if strings.HasPrefix(k, "L$") || k == "alloc" || strings.HasPrefix(k, "defer$") || vc.p.lockMaps[k] {
			continue
		}
		names = append(names, k)
	}
	sort.Strings(names)
	for _, k := range names {
		vc.bump(n.env, k)
	}
	vc.allocMono(n, pre)
}

// ---------------------------------------------------------------- inlining

func (vc *VC) inlineCall(fr *Frame, n *Node, callee *ssa.Function, ci *closureInfo, call *ssa.CallCommon, res ssa.Value, args []string) *Node {
	fr2 := vc.newFrame(callee, fr)
	fr2.params = args
	for i, p := range callee.Params {
		if i < len(args) {
			fr2.regs[p] = args[i]
			if i < len(call.Args) {
				if c, ok := fr.clos[call.Args[i]]; ok {
					fr2.clos[p] = c
				}
				if lv := fr.lvs[call.Args[i]]; lv != nil {
					fr2.lvs[p] = lv
				} else if _, isPtr := call.Args[i].Type().Underlying().(*types.Pointer); isPtr {
					if lv := vc.addrOf(fr, n, call.Args[i]); lv != nil && (lv.kind == lvHeap && (len(lv.path) > 0) || lv.kind == lvLocal || lv.kind == lvMem || lv.kind == lvGlobal) {
						fr2.lvs[p] = lv
					}
				}
			}
		}
	}
	if ci != nil {
		for i, fv := range callee.FreeVars {
			if i < len(ci.bindings) {
				fr2.regs[fv] = ci.bindings[i]
				if lv := ci.fr.lvs[ci.bindVals[i]]; lv != nil {
					fr2.lvs[fv] = lv
				}
				if a, ok := ci.bindVals[i].(*ssa.Alloc); ok {
					if c2, ok := ci.fr.cellClos[a]; ok {
						fr2.fvClos[fv] = c2
					}
				}
			}
		}
	} else if len(callee.FreeVars) > 0 {
		vc.unsupported("%s: inlining closure %s without bindings", fr.fn, callee)
	}
	fr2.entryEnv = n.env.clone()
	vc.runFrame(fr2, n)
	if len(fr2.exits) == 0 {
		return nil // callee never returns
	}
	ins, results := vc.joinExits(fr2)
	cont := vc.join(fmt.Sprintf("%s.cont", fr2.prefix), ins)
	vc.bindResult(fr, cont, res, results)
	// closure-valued results
	if res != nil && len(fr2.exits) == 1 {
		// not tracked
	}
	return cont
}

// joinExits unifies the return points of a frame: edges into the continuation plus unified result terms.
func (vc *VC) joinExits(fr2 *Frame) ([]*Edge, []string) {
	var ins []*Edge
	for _, ex := range fr2.exits {
		ins = append(ins, &Edge{from: ex.node, cond: "true"})
	}
	rts := resultTypes(fr2.fn.Signature)
	var results []string
	for i, t := range rts {
		same := true
		for _, ex := range fr2.exits[1:] {
			if ex.results[i] != fr2.exits[0].results[i] {
				same = false
			}
		}
		if same {
			results = append(results, fr2.exits[0].results[i])
			continue
		}
		r := vc.fresh(fmt.Sprintf("%s.ret%d", fr2.prefix, i), vc.srt.sortOf(t))
		for j, ex := range fr2.exits {
			ins[j].eqs = append(ins[j].eqs, sEq(r, ex.results[i]))
		}
		results = append(results, r)
	}
	return ins, results
}

// ---------------------------------------------------------------- calls by contract

func (vc *VC) calleeNames(callee *ssa.Function, fc *FuncContract, args []string, ci *closureInfo, env Env) map[string]Val {
	names := map[string]Val{}
	for i, p := range callee.Params {
		if i < len(args) {
			names[p.Name()] = Val{T: args[i], Ty: p.Type()}
		}
	}
	if ci != nil {
		for i, fv := range callee.FreeVars {
			if i < len(ci.bindings) {
				t := fv.Type().(*types.Pointer).Elem()
				// value of the captured variable: read its cell
				lv := ci.fr.lvs[ci.bindVals[i]]
				if lv == nil {
					lv = &LVal{kind: lvCell, ref: ci.bindings[i], typ: t}
					if isAggregate(t) {
						lv = &LVal{kind: lvHeap, ref: ci.bindings[i], root: t, typ: t}
					}
				}
				names[fv.Name()] = Val{Ty: t, LV: lv}
			}
		}
	}
	return names
}

func (vc *VC) callByContract(fr *Frame, n *Node, callee *ssa.Function, fc *FuncContract, ci *closureInfo, call *ssa.CallCommon, res ssa.Value, args []string, pos token.Pos, ord int) {
	vc.calledContracts[callee] = true
	names := vc.calleeNames(callee, fc, args, ci, n.env)
	pre := n.env.clone()
	sc := &SpecCtx{vc: vc, fr: fr, node: n, env: n.env, old: pre, names: names, pkg: callee.Pkg.Pkg, calleeFn: callee}
	if callee.Pkg == nil && callee.Parent() != nil {
		sc.pkg = callee.Parent().Pkg.Pkg
	}
	// preconditions
	j := 0
	for _, c := range fc.Clauses {
		if c.Kind != "requires" {
			continue
		}
		j++
		if hasTag(c.Tags, "INV") {
			// object invariant: assumed at the entry of the methods, established by the constructors and preserved by
			// every method (their own obligations), representation confined to the type's methods - not a caller duty
			vc.used["object invariant (assumed at method entry, not asserted at call sites) of "+relKey(callee)+": "+truncate(c.Text, 120)] = true
			continue
		}
		f, err := sc.formula(c.E)
		if err != nil {
			vc.specError(c, err)
			continue
		}
		lbl := fmt.Sprint(j)
		if c.Label != "" {
			lbl = c.Label
		}
		ob := vc.newObl(fmt.Sprintf("%s/call %s#%d/pre/%s", relKey(fr.fn), relKey(callee), ord, lbl), "pre", c.Tags, c.Text, pos)
		vc.assertAt(n, f, ob)
	}
	// frame (the allocation map grows first, so that havocked pointers may designate objects allocated by the callee)
	explicit := false
	for _, c := range fc.Clauses {
		if c.Kind == "modifies" {
			explicit = true
		}
	}
	if explicit {
		vc.allocMono(n, pre)
	}
	for _, c := range fc.Clauses {
		if c.Kind == "modifies" {
			for _, loc := range splitTopLevel(c.Text) {
				if err := vc.havocLoc(sc, n, loc); err != nil {
					vc.specError(c, err)
				}
			}
		}
	}
	if explicit {
		// witness ghosts are not part of any frame: whatever the callee (transitively) does to them is unknown here
		var wn []string
		cms := vc.p.autoMods[callee]
		for k := range vc.svars {
			if vc.witnessMap(k) && (cms == nil || cms.Top || cms.Maps[k]) {
				wn = append(wn, k)
			}
		}
		sort.Strings(wn)
		vc.havocMaps(n, wn)
	} else {
		ms := vc.p.autoMods[callee]
		if ms == nil || ms.Top {
			why := "no frame"
			if ms != nil {
				why = ms.Why
			}
			vc.havocAll(fr, n, "call "+relKey(callee)+" ("+why+")")
		} else {
			vc.havocMaps(n, ms.sorted())
		}
		for _, c := range fc.Clauses {
			if c.Kind == "havocs" {
				for _, loc := range splitTopLevel(c.Text) {
					if err := vc.havocLoc(sc, n, loc); err != nil {
						vc.specError(c, err)
					}
				}
			}
		}
	}
	// declared lock effects: the state of the named locks is whatever the postcondition says
	for _, c := range fc.Clauses {
		if c.Kind != "acquires" && c.Kind != "releases" {
			continue
		}
		psc := *sc
		psc.env = pre
		for _, loc := range splitTopLevel(c.Text) {
			e, err := ParseExpr(strings.Fields(loc)[0])
			if err != nil {
				vc.specError(c, err)
				continue
			}
			v, err := psc.eval(e)
			if err != nil {
				vc.specError(c, err)
				continue
			}
			var addr string
			if v.Ty != nil {
				if pt, ok := v.Ty.Underlying().(*types.Pointer); ok && isLockType(pt.Elem()) {
					addr = psc.term(v)
				}
			}
			if addr == "" && v.LV != nil {
				addr = vc.lockAddr(v.LV)
			}
			if addr == "" {
				vc.specError(c, fmt.Errorf("bad lock location %q", loc))
				continue
			}
			vc.lockVar()
			old := vc.cur(n.env, "LockSt")
			nv := vc.bump(n.env, "LockSt")
			st := vc.fresh("lockst", "Int")
			n.assume(sAnd(app("<=", "0", st), app("<=", st, "2")))
			n.assume(sEq(nv, app("store", old, addr, st)))
		}
	}
	// results
	results := vc.havocResults(fr, n, callee.Signature, callee.Name())
	vc.bindResult(fr, n, res, results)
	sc2 := &SpecCtx{vc: vc, fr: fr, node: n, env: n.env, old: pre, names: names, pkg: sc.pkg, calleeFn: callee}
	vc.bindResultNames(sc2, callee, results)
	for _, c := range fc.Clauses {
		if c.Kind != "ensures" {
			continue
		}
		f, err := sc2.formula(c.E)
		if err != nil {
			vc.specError(c, err)
			continue
		}
		n.assume(f)
	}
}

func (vc *VC) bindResultNames(sc *SpecCtx, fn *ssa.Function, results []string) {
	rs := fn.Signature.Results()
	for i := 0; i < rs.Len(); i++ {
		if i >= len(results) {
			break
		}
		v := Val{T: results[i], Ty: rs.At(i).Type()}
		sc.names[fmt.Sprintf("result%d", i)] = v
		if i == 0 && rs.Len() == 1 {
			sc.names["result"] = v
		}
		if nm := rs.At(i).Name(); nm != "" && nm != "_" {
			sc.names[nm] = v
		} else if i == rs.Len()-1 && types.Identical(rs.At(i).Type(), types.Universe.Lookup("error").Type()) {
			if _, taken := sc.names["err"]; !taken {
				sc.names["err"] = v
			}
		}
	}
}

// havocLoc: one item of a modifies clause.
func (vc *VC) havocLoc(sc *SpecCtx, n *Node, loc string) error {
	loc = strings.TrimSpace(loc)
	if loc == "nothing" || loc == "" {
		return nil
	}
	if strings.HasPrefix(loc, "all(") && strings.HasSuffix(loc, ")") {
		// all(T.f): whole field map; all(Mem byte)
		name, err := sc.mapNameOf(strings.TrimSuffix(strings.TrimPrefix(loc, "all("), ")"))
		if err != nil {
			return err
		}
		for _, nm := range name {
			if _, ok := vc.svars[nm]; ok {
				vc.bump(n.env, nm)
			} else {
				vc.lateVars[nm] = true
			}
		}
		return nil
	}
	if strings.HasPrefix(loc, "mem(") && strings.HasSuffix(loc, ")") {
		e, err := ParseExpr(strings.TrimSuffix(strings.TrimPrefix(loc, "mem("), ")"))
		if err != nil {
			return err
		}
		// evaluate in pre-state
		psc := *sc
		psc.env = sc.old
		v, err := psc.eval(e)
		if err != nil {
			return err
		}
		st, ok := v.Ty.Underlying().(*types.Slice)
		if !ok {
			return fmt.Errorf("mem(%s): not a slice", e)
		}
		m := vc.memMap(st.Elem())
		old := vc.cur(n.env, m.Name)
		nv := vc.bump(n.env, m.Name)
		row := vc.fresh("row", "(Array Int "+vc.srt.sortOf(st.Elem())+")")
		n.assume(sEq(nv, app("store", old, app("s.arr", v.T), row)))
		// outside the slice window the row is unchanged
		n.assume(fmt.Sprintf("(forall ((j Int)) (! (=> (or (< j (s.off %s)) (>= j (+ (s.off %s) (s.len %s)))) (= (select %s j) (select (select %s (s.arr %s)) j))) :pattern ((select %s j))))", v.T, v.T, v.T, row, old, v.T, row))
		return nil
	}
	e, err := ParseExpr(loc)
	if err != nil {
		return err
	}
	psc := *sc
	psc.env = sc.old
	v, err := psc.eval(e)
	if err != nil {
		return err
	}
	if v.LV == nil {
		return fmt.Errorf("modifies %s: not a location", loc)
	}
	vc.havocLV(n, v.LV)
	return nil
}

func (vc *VC) havocLV(n *Node, lv *LVal) {
	if lv.typ == nil {
		// spec-only typed ghost location
		srt := lv.gsort
		if srt == "" {
			srt = "Int"
		}
		vc.store(n, lv, vc.fresh("hv", srt))
		return
	}
	if isAggregate(lv.typ) && lv.kind == lvHeap && len(lv.idx) == 0 {
		s := lv.typ.Underlying().(*types.Struct)
		for i := 0; i < s.NumFields(); i++ {
			vc.havocLV(n, vc.fieldOf(lv, lv.typ, i))
		}
		return
	}
	f := vc.fresh("hv", vc.srt.sortOf(lv.typ))
	vc.store(n, lv, f)
	n.assume(vc.valueFact(n.env, f, lv.typ))
}

// ---------------------------------------------------------------- interface calls

func (vc *VC) callInvoke(fr *Frame, n *Node, call *ssa.CallCommon, res ssa.Value, args []string, pos token.Pos) *Node {
	recv := vc.val(fr, call.Value)
	vc.safety(fr, n, "nil", sNot(sEq(app("i.tag", recv), "0")), pos)
	key := typeName(call.Value.Type()) + "." + call.Method.Name()
	// a known concrete dynamic type (value made by MakeInterface in this frame) -> static dispatch
	if mi, ok := call.Value.(*ssa.MakeInterface); ok {
		ms := vc.p.prog.MethodSets.MethodSet(mi.X.Type())
		if sel := ms.Lookup(call.Method.Pkg(), call.Method.Name()); sel != nil {
			if f := vc.p.prog.MethodValue(sel); f != nil {
				all := append([]string{vc.val(fr, mi.X)}, args...)
				cc := *call
				cc.Args = append([]ssa.Value{mi.X}, call.Args...)
				return vc.callStatic(fr, n, f, nil, &cc, res, all, pos)
			}
		}
	}
	akey := "." + call.Method.Name() // anonymous interface: anchor is .Method
	if nt, ok := types.Unalias(call.Value.Type()).(*types.Named); ok {
		akey = nt.Obj().Name() + "." + call.Method.Name()
	}
	fr.callOrd["@"+akey]++
	aord := fr.callOrd["@"+akey]
	fr.ghostArgs = map[string]Val{"self": {T: recv, Ty: call.Value.Type()}}
	if fc, ok := vc.p.ifaceContracts[key]; ok {
		vc.ghostAt(fr, n, "before", akey, aord)
		vc.callIfaceContract(fr, n, fc, call, res, recv, args, pos, key)
		vc.ghostAt(fr, n, "after", akey, aord, res)
		return n
	}
	if _, ok := vc.p.libs[key]; ok || key == "error.Error" {
		vc.ghostAt(fr, n, "before", akey, aord)
		if vc.libInvoke(fr, n, key, call, res, recv, args, pos) {
			vc.ghostAt(fr, n, "after", akey, aord, res)
			return n
		}
	}
	// CHA frame
	vc.ghostAt(fr, n, "before", akey, aord)
	targets := vc.p.chaTargets(call)
	maps := map[string]bool{}
	top := false
	for _, t := range targets {
		ms := vc.p.autoMods[t]
		if ms == nil {
			continue
		}
		if ms.Top {
			top = true
		}
		for k := range ms.Maps {
			maps[k] = true
		}
	}
	if top {
		vc.havocAll(fr, n, "interface call "+key)
	} else {
		var names []string
		for k := range maps {
			names = append(names, k)
		}
		sort.Strings(names)
		vc.havocMaps(n, names)
		if len(targets) == 0 {
			vc.used["interface call "+key+" has no repository implementation: assumed to modify no modelled state"] = true
		}
	}
	vc.bindResult(fr, n, res, vc.havocResults(fr, n, call.Signature(), call.Method.Name()))
	vc.ghostAt(fr, n, "after", akey, aord, res)
	return n
}

// callFuncTypeContract: a call through a value of a named function type under the type's contract.
func (vc *VC) callFuncTypeContract(fr *Frame, n *Node, fc *FuncContract, call *ssa.CallCommon, res ssa.Value, self string, args []string, pos token.Pos, key string) {
	names := map[string]Val{"self": {T: self, Ty: call.Value.Type()}}
	sig := call.Signature()
	for i := 0; i < sig.Params().Len() && i < len(args); i++ {
		nm := sig.Params().At(i).Name()
		if nm == "" {
			nm = fmt.Sprintf("arg%d", i)
		}
		names[nm] = Val{T: args[i], Ty: sig.Params().At(i).Type()}
	}
	pre := n.env.clone()
	var pkg *types.Package
	if nt, ok := types.Unalias(call.Value.Type()).(*types.Named); ok {
		pkg = nt.Obj().Pkg()
	}
	sc := &SpecCtx{vc: vc, fr: fr, node: n, env: n.env, old: pre, names: names, pkg: pkg}
	explicit := false
	for _, c := range fc.Clauses {
		if c.Kind == "modifies" {
			explicit = true
			for _, loc := range splitTopLevel(c.Text) {
				if err := vc.havocLoc(sc, n, loc); err != nil {
					vc.specError(c, err)
				}
			}
		}
	}
	if !explicit {
		targets := vc.p.funcValueTargets(sig)
		maps := map[string]bool{}
		for _, t := range targets {
			if ms := vc.p.autoMods[t]; ms != nil {
				if ms.Top {
					vc.havocAll(fr, n, "call through "+key)
				}
				for k := range ms.Maps {
					maps[k] = true
				}
			}
		}
		var nms []string
		for k := range maps {
			nms = append(nms, k)
		}
		sort.Strings(nms)
		vc.havocMaps(n, nms)
	}
	vc.used["function-type contract (assumed for every value of the type; closures assigned to it are verified against their own contracts): "+key] = true
	results := vc.havocResults(fr, n, sig, "fv")
	vc.bindResult(fr, n, res, results)
	sc2 := &SpecCtx{vc: vc, fr: fr, node: n, env: n.env, old: pre, names: names, pkg: pkg}
	for i, r := range results {
		v := Val{T: r, Ty: sig.Results().At(i).Type()}
		sc2.names[fmt.Sprintf("result%d", i)] = v
		if len(results) == 1 {
			sc2.names["result"] = v
		}
	}
	for _, c := range fc.Clauses {
		if c.Kind != "ensures" {
			continue
		}
		f, err := sc2.formula(c.E)
		if err != nil {
			vc.specError(c, err)
			continue
		}
		n.assume(f)
	}
}

func (vc *VC) callIfaceContract(fr *Frame, n *Node, fc *FuncContract, call *ssa.CallCommon, res ssa.Value, recv string, args []string, pos token.Pos, key string) {
	names := map[string]Val{}
	names["self"] = Val{T: recv, Ty: call.Value.Type()}
	sig := call.Signature()
	for i := 0; i < sig.Params().Len() && i < len(args); i++ {
		nm := sig.Params().At(i).Name()
		if i < len(fc.Params) {
			nm = fc.Params[i].Name
		}
		if nm == "" {
			nm = fmt.Sprintf("arg%d", i)
		}
		names[nm] = Val{T: args[i], Ty: sig.Params().At(i).Type()}
	}
	pre := n.env.clone()
	var pkg *types.Package
	if nt, ok := types.Unalias(call.Value.Type()).(*types.Named); ok {
		pkg = nt.Obj().Pkg()
	}
	sc := &SpecCtx{vc: vc, fr: fr, node: n, env: n.env, old: pre, names: names, pkg: pkg}
	fr.callOrd[key]++
	ord := fr.callOrd[key]
	j := 0
	for _, c := range fc.Clauses {
		if c.Kind != "requires" {
			continue
		}
		j++
		f, err := sc.formula(c.E)
		if err != nil {
			vc.specError(c, err)
			continue
		}
		ob := vc.newObl(fmt.Sprintf("%s/call %s#%d/pre/%d", relKey(fr.fn), key, ord, j), "pre", c.Tags, c.Text, pos)
		vc.assertAt(n, f, ob)
	}
	explicit := false
	for _, c := range fc.Clauses {
		if c.Kind == "modifies" {
			explicit = true
			for _, loc := range splitTopLevel(c.Text) {
				if err := vc.havocLoc(sc, n, loc); err != nil {
					vc.specError(c, err)
				}
			}
		}
	}
	if !explicit {
		// interface contract without modifies: CHA frame
		targets := vc.p.chaTargets(call)
		maps := map[string]bool{}
		for _, t := range targets {
			if ms := vc.p.autoMods[t]; ms != nil {
				if ms.Top {
					vc.havocAll(fr, n, "interface call "+key)
				}
				for k := range ms.Maps {
					maps[k] = true
				}
			}
		}
		var nms []string
		for k := range maps {
			nms = append(nms, k)
		}
		sort.Strings(nms)
		vc.havocMaps(n, nms)
		for _, c := range fc.Clauses {
			if c.Kind == "havocs" {
				for _, loc := range splitTopLevel(c.Text) {
					if err := vc.havocLoc(sc, n, loc); err != nil {
						vc.specError(c, err)
					}
				}
			}
		}
	} else {
		vc.allocMono(n, pre)
	}
	results := vc.havocResults(fr, n, sig, call.Method.Name())
	vc.bindResult(fr, n, res, results)
	sc2 := &SpecCtx{vc: vc, fr: fr, node: n, env: n.env, old: pre, names: names, pkg: pkg}
	for i, r := range results {
		v := Val{T: r, Ty: sig.Results().At(i).Type()}
		sc2.names[fmt.Sprintf("result%d", i)] = v
		if len(results) == 1 {
			sc2.names["result"] = v
		}
		if i == len(results)-1 && types.Identical(v.Ty, types.Universe.Lookup("error").Type()) {
			sc2.names["err"] = v
		}
	}
	for _, c := range fc.Clauses {
		if c.Kind != "ensures" {
			continue
		}
		f, err := sc2.formula(c.E)
		if err != nil {
			vc.specError(c, err)
			continue
		}
		n.assume(f)
	}
}

// ---------------------------------------------------------------- defers

func (vc *VC) execDefer(fr *Frame, n *Node, d *ssa.Defer) {
	for _, b := range loopBlocks(fr.fn) {
		if b == d.Block() {
			vc.unsupported("%s: defer inside a loop", fr.fn)
		}
	}
	ds := &deferSite{instr: d, order: len(fr.defers)}
	for _, a := range d.Call.Args {
		ds.args = append(ds.args, vc.val(fr, a))
	}
	if d.Call.IsInvoke() {
		ds.args = append([]string{vc.val(fr, d.Call.Value)}, ds.args...)
	}
	ds.flag = fmt.Sprintf("defer$%s$%d", fr.prefix, len(fr.defers))
	vc.svar(ds.flag, "Bool", nil)
	vc.addAxiom(sNot(verName(ds.flag, 0)))
	nv := vc.bump(n.env, ds.flag)
	n.assume(nv)
	ds.setVersion = n.env[ds.flag]
	fr.defers = append(fr.defers, ds)
	if mc, ok := d.Call.Value.(*ssa.MakeClosure); ok {
		_ = mc
	}
}

func loopBlocks(fn *ssa.Function) []*ssa.BasicBlock {
	var out []*ssa.BasicBlock
	heads := loopHeads(fn)
	for h := range heads {
		// blocks that can reach a back-edge source of h without leaving through h: approximate by dominance
		for _, b := range fn.Blocks {
			if h.Dominates(b) && reaches(b, h) {
				out = append(out, b)
			}
		}
	}
	return out
}

func reaches(from, to *ssa.BasicBlock) bool {
	seen := map[*ssa.BasicBlock]bool{}
	var dfs func(b *ssa.BasicBlock) bool
	dfs = func(b *ssa.BasicBlock) bool {
		if seen[b] {
			return false
		}
		seen[b] = true
		for _, s := range b.Succs {
			if s == to || dfs(s) {
				return true
			}
		}
		return false
	}
	return dfs(from)
}

// runDefers executes the deferred calls registered so far in reverse order.  A defer whose flag is not
// definitely set is executed on a branch (flag true) and skipped on the other.
func (vc *VC) runDefers(fr *Frame, n *Node) *Node {
	cur := n
	for i := len(fr.defers) - 1; i >= 0; i-- {
		ds := fr.defers[i]
		if cur == nil {
			return nil
		}
		flag := vc.cur(cur.env, ds.flag)
		if cur.env[ds.flag] == 0 {
			// never set on any path reaching here (version 0 is the entry value: false)
			continue
		}
		// is the flag definitely true?  (set in a node that dominates: same version as set at defer time and no join created a new one)
		definite := vc.deferDefinite(fr, ds, cur)
		if definite {
			cur = vc.execDeferred(fr, cur, ds)
			continue
		}
		// branch
		yes := vc.join(cur.name+".dy", []*Edge{{from: cur, cond: flag}})
		no := vc.join(cur.name+".dn", []*Edge{{from: cur, cond: sNot(flag)}})
		yes2 := vc.execDeferred(fr, yes, ds)
		var ins []*Edge
		if yes2 != nil {
			ins = append(ins, &Edge{from: yes2, cond: "true"})
		}
		ins = append(ins, &Edge{from: no, cond: "true"})
		cur = vc.join(cur.name+".dj", ins)
	}
	return cur
}

func (vc *VC) deferDefinite(fr *Frame, ds *deferSite, at *Node) bool {
	// the version recorded when the defer executed
	return ds.setVersion != 0 && at.env[ds.flag] == ds.setVersion
}

func (vc *VC) execDeferred(fr *Frame, n *Node, ds *deferSite) *Node {
	d := ds.instr
	call := &d.Call
	if b, ok := call.Value.(*ssa.Builtin); ok {
		if b.Name() == "recover" {
			return n
		}
		vc.execBuiltinArgs(fr, n, b, call, nil, ds.args, d.Pos())
		return n
	}
	if call.IsInvoke() {
		return vc.callInvokeWith(fr, n, call, nil, ds.args[0], ds.args[1:], d.Pos())
	}
	callee := call.StaticCallee()
	var ci *closureInfo
	if mc, ok := call.Value.(*ssa.MakeClosure); ok {
		ci = fr.clos[mc]
	} else if callee == nil {
		if c, ok := fr.clos[call.Value]; ok {
			ci, callee = c, c.fn
		}
	}
	if callee == nil {
		vc.havocAll(fr, n, "deferred call of unknown function value")
		return n
	}
	return vc.callStatic(fr, n, callee, ci, call, nil, ds.args, d.Pos())
}

func (vc *VC) callInvokeWith(fr *Frame, n *Node, call *ssa.CallCommon, res ssa.Value, recv string, args []string, pos token.Pos) *Node {
	// used for deferred interface calls: same as callInvoke but with captured receiver
	saved, had := fr.regs[call.Value]
	fr.regs[call.Value] = recv
	out := vc.callInvoke(fr, n, call, res, args, pos)
	if had {
		fr.regs[call.Value] = saved
	}
	return out
}
