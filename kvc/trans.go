package main

// SSA (naive form) -> guarded commands in passive form, per function ("frame"), with loop cutting,
// modular calls (contracts), optional inlining, defers, and safety obligations.

import (
	"fmt"
	"go/constant"
	"go/token"
	"go/types"
	"sort"
	"strings"

	"golang.org/x/tools/go/ssa"
)

type lvKind int

const (
	lvLocal  lvKind = iota // non-escaping scalar cell: its own state variable
	lvHeap                 // object field(s): ref + path below a root struct type
	lvMem                  // element of a backing array: Mem$σ[arr][idx]
	lvGlobal               // package-level variable
	lvCell                 // escaping scalar cell: Cell$σ[ref]
	lvOpaque               // something we cannot model
	lvGhost                // ghost field: map sv indexed by ref
)

type LVal struct {
	kind lvKind
	sv   string     // lvLocal/lvGlobal: state var name
	ref  string     // lvHeap/lvCell: object ref; lvMem: backing array ref
	root types.Type // lvHeap: innermost named (or anonymous) struct type owning path
	path []string   // lvHeap: field path below root
	idx  []string   // array indices applied to the leaf (lvHeap/lvLocal/lvGlobal arrays) or the element index for lvMem
	typ  types.Type // type of the designated location
	fresh bool      // object allocated in this frame (no nil check needed)
	gsort string    // lvGhost: sort of the value
}

type closureInfo struct {
	fn       *ssa.Function
	bindings []string // terms for free variables (pointers to cells)
	bindVals []ssa.Value
	fr       *Frame
}

type deferSite struct {
	instr *ssa.Defer
	flag  string // svar name (Bool)
	args  []string
	recvLV *LVal
	order int
	setVersion int
}

type exitPoint struct {
	node    *Node
	results []string
}

type Frame struct {
	exitResults []string // result terms at the single exit (for `ghost exit` statements)
	id      int
	fn      *ssa.Function
	parent  *Frame
	depth   int
	regs    map[ssa.Value]string
	lvs     map[ssa.Value]*LVal
	clos    map[ssa.Value]*closureInfo
	cellClos map[*ssa.Alloc]*closureInfo
	localSV map[*ssa.Alloc]string
	defers  []*deferSite
	fc      *FuncContract
	entryEnv Env
	params  []string
	isRoot  bool
	exits   []*exitPoint
	callOrd map[string]int
	loopOrd map[*ssa.BasicBlock]int
	prefix  string
	results []string // root: result terms at the current return
	allocFresh map[string]bool
	tuples  map[ssa.Value][]string
	tupClos map[ssa.Value][]*closureInfo
	rangeOf map[ssa.Value]ssa.Value
	phiEdges map[*ssa.BasicBlock][]string
	checkedNil map[string]bool
	fvClos  map[*ssa.FreeVar]*closureInfo
	lockEvents *[]string
	ghostDone map[*GhostStmt]bool
	predVar map[*ssa.BasicBlock]string
	retPos  token.Pos
	frame   *frameSpec
	ghostArgs map[string]Val
	curPos  token.Pos
}

func (vc *VC) newFrame(fn *ssa.Function, parent *Frame) *Frame {
	vc.frameSeq++
	fr := &Frame{id: vc.frameSeq, fn: fn, parent: parent, regs: map[ssa.Value]string{}, lvs: map[ssa.Value]*LVal{},
		clos: map[ssa.Value]*closureInfo{}, cellClos: map[*ssa.Alloc]*closureInfo{}, localSV: map[*ssa.Alloc]string{},
		callOrd: map[string]int{}, allocFresh: map[string]bool{}, tuples: map[ssa.Value][]string{}, tupClos: map[ssa.Value][]*closureInfo{},
		rangeOf: map[ssa.Value]ssa.Value{}, phiEdges: map[*ssa.BasicBlock][]string{}, checkedNil: map[string]bool{}, fvClos: map[*ssa.FreeVar]*closureInfo{},
		ghostDone: map[*GhostStmt]bool{}, predVar: map[*ssa.BasicBlock]string{}}
	if parent != nil {
		fr.depth = parent.depth + 1
	}
	fr.fc = vc.p.contracts[fn]
	fr.prefix = fmt.Sprintf("f%d", fr.id)
	fr.loopOrd = loopOrdinals(vc.p, fn)
	return fr
}

// loopOrdinals numbers the loop heads of fn in source order (position of the loop head block's first positioned instruction).
func loopOrdinals(p *Prog, fn *ssa.Function) map[*ssa.BasicBlock]int {
	heads := loopHeads(fn)
	type hp struct {
		b   *ssa.BasicBlock
		pos token.Pos
	}
	var hs []hp
	for h := range heads {
		pos := token.NoPos
		// position: smallest valid position among instructions of the head or the loop body's first block
		for _, b := range append([]*ssa.BasicBlock{h}, h.Succs...) {
			for _, in := range b.Instrs {
				if in.Pos().IsValid() && (pos == token.NoPos || in.Pos() < pos) {
					pos = in.Pos()
				}
			}
			if pos.IsValid() {
				break
			}
		}
		hs = append(hs, hp{h, pos})
	}
	sort.Slice(hs, func(i, j int) bool {
		if hs[i].pos != hs[j].pos {
			return hs[i].pos < hs[j].pos
		}
		return hs[i].b.Index < hs[j].b.Index
	})
	out := map[*ssa.BasicBlock]int{}
	for i, h := range hs {
		out[h.b] = i + 1
	}
	return out
}

func loopHeads(fn *ssa.Function) map[*ssa.BasicBlock]bool {
	heads := map[*ssa.BasicBlock]bool{}
	for _, b := range fn.Blocks {
		for _, s := range b.Succs {
			if s.Dominates(b) {
				heads[s] = true
			}
		}
	}
	return heads
}

func rpo(fn *ssa.Function) []*ssa.BasicBlock {
	seen := map[*ssa.BasicBlock]bool{}
	var post []*ssa.BasicBlock
	var dfs func(b *ssa.BasicBlock)
	dfs = func(b *ssa.BasicBlock) {
		seen[b] = true
		for _, s := range b.Succs {
			if !seen[s] && !s.Dominates(b) {
				dfs(s)
			}
		}
		post = append(post, b)
	}
	if len(fn.Blocks) > 0 {
		dfs(fn.Blocks[0])
	}
	for i, j := 0, len(post)-1; i < j; i, j = i+1, j-1 {
		post[i], post[j] = post[j], post[i]
	}
	// A DFS that skips back edges yields a valid topological order of the cut CFG only if every
	// non-back predecessor precedes its successor; reverse postorder guarantees that.
	return post
}

// ---------------------------------------------------------------- values

func (vc *VC) typeTag(t types.Type) int {
	k := types.TypeString(t, nil)
	if id, ok := vc.typeTags[k]; ok {
		return id
	}
	id := len(vc.typeTags) + 1
	vc.typeTags[k] = id
	vc.tagTypes = append(vc.tagTypes, t)
	return id
}

func (vc *VC) constTerm(c *ssa.Const) string {
	t := c.Type()
	if c.Value == nil {
		return vc.srt.zeroOf(t)
	}
	switch {
	case isBool(t):
		if constant.BoolVal(c.Value) {
			return "true"
		}
		return "false"
	case isInteger(t):
		if s, ok := constInt(c.Value); ok {
			return s
		}
		if s, ok := constInt(constant.ToInt(c.Value)); ok {
			return s
		}
	case isFloat(t):
		f, _ := constant.Float64Val(c.Value)
		return float64Lit(f)
	case isString(t):
		return vc.strConst(constant.StringVal(c.Value))
	}
	if b, ok := t.Underlying().(*types.Basic); ok && b.Kind() == types.UntypedNil {
		return "0"
	}
	vc.unsupported("constant %s of type %s", c, t)
	return vc.fresh("const", vc.srt.sortOf(t))
}

func (vc *VC) val(fr *Frame, v ssa.Value) string {
	switch v := v.(type) {
	case *ssa.Const:
		return vc.constTerm(v)
	case *ssa.Function:
		return fmt.Sprint(1000000 + vc.typeTag(types.NewPointer(types.Typ[types.Int]))*0 + vc.fnID(v))
	case *ssa.Global:
		// address of a global used as a value
		return vc.globalAddr(v)
	case *ssa.Builtin:
		return "0"
	}
	if t, ok := fr.regs[v]; ok {
		return t
	}
	// address-valued instructions used as plain values
	if lv := vc.addrOf(fr, nil, v); lv != nil {
		switch lv.kind {
		case lvHeap:
			if len(lv.path) == 0 && len(lv.idx) == 0 {
				return lv.ref
			}
		case lvCell:
			return lv.ref
		case lvMem:
			if len(lv.idx) == 0 {
				return lv.ref
			}
		}
	}
	if lv := vc.addrOf(fr, nil, v); lv != nil {
		// interior pointer used as a value: opaque but functional in (location)
		switch lv.kind {
		case lvHeap, lvLocal, lvGlobal:
			return vc.lockAddr(lv)
		case lvMem:
			vc.declareFun("ptr$mem", []string{"Int", "Int"}, "Int")
			if len(lv.idx) == 1 {
				return app("ptr$mem", lv.ref, lv.idx[0])
			}
		}
	}
	vc.unsupported("%s: value %s (%T) used before definition", fr.fn, v.Name(), v)
	t := vc.fresh("undef", vc.srt.sortOf(v.Type()))
	fr.regs[v] = t
	return t
}

var fnIDs = map[*ssa.Function]int{}

func (vc *VC) fnID(f *ssa.Function) int {
	if id, ok := fnIDs[f]; ok {
		return id
	}
	id := len(fnIDs) + 1
	fnIDs[f] = id
	return id
}

func (vc *VC) globalAddr(g *ssa.Global) string {
	n := "gaddr$" + g.Pkg.Pkg.Name() + "." + g.Name()
	vc.declare(n, "Int")
	return smtName(n)
}

// define binds an SSA register to a term; long terms get their own constant.
func (vc *VC) define(fr *Frame, n *Node, v ssa.Value, term string) {
	if len(term) > 48 {
		c := vc.fresh(fr.prefix+"."+v.Name(), vc.srt.sortOf(v.Type()))
		n.assume(sEq(c, term))
		term = c
	}
	fr.regs[v] = term
}

// ---------------------------------------------------------------- heap naming

func (vc *VC) heapMapName(root types.Type, path []string) string {
	return "H$" + typeName(root) + "$" + strings.Join(path, ".")
}

func (vc *VC) heapMap(root types.Type, path []string, leaf types.Type) *SVar {
	name := vc.heapMapName(root, path)
	return vc.svar(name, "(Array Int "+vc.srt.sortOf(leaf)+")", nil)
}

func (vc *VC) memMap(elem types.Type) *SVar {
	// one memory per Go element type (memories of different element types never alias)
	return vc.svar(memName(vc.srt, elem), "(Array Int (Array Int "+vc.srt.sortOf(elem)+"))", nil)
}

func sortTag(s string) string {
	return strings.NewReplacer("(", "_", ")", "_", " ", "_", "|", "").Replace(s)
}

func (vc *VC) cellMap(t types.Type) *SVar {
	s := vc.srt.sortOf(t)
	return vc.svar("Cell$"+sortTag(s), "(Array Int "+s+")", nil)
}

func (vc *VC) allocVar() *SVar { return vc.svar("alloc", "(Array Int Bool)", nil) }

// newRef allocates a fresh object reference.
func (vc *VC) newRef(n *Node, hint string) string {
	r := vc.fresh("ref."+hint, "Int")
	a := vc.allocVar()
	n.assume(app("<", "0", r))
	n.assume(sNot(app("select", vc.cur(n.env, a.Name), r)))
	old := vc.cur(n.env, a.Name)
	nv := vc.bump(n.env, a.Name)
	n.assume(sEq(nv, app("store", old, r, "true")))
	return r
}

func (vc *VC) isAllocated(env Env, ref string) string {
	return app("select", vc.cur(env, vc.allocVar().Name), ref)
}

// valueFact: type fact plus "pointers are nil or allocated"
func (vc *VC) valueFact(env Env, term string, t types.Type) string {
	f := vc.srt.typeFact(term, t)
	switch u := types.Unalias(t).Underlying().(type) {
	case *types.Pointer, *types.Map, *types.Chan:
		_ = u
		if specialKind(t) == notSpecial {
			f = sAnd(f, sOr(sEq(term, "0"), vc.isAllocated(env, term)))
		}
	case *types.Slice:
		f = sAnd(f, sOr(sEq(app("s.arr", term), "0"), vc.isAllocated(env, app("s.arr", term))))
	case *types.Interface:
		// dynamic pointer values are allocated
		f = sAnd(f, sOr(sEq(app("i.val", term), "0"), vc.isAllocated(env, app("i.val", term)), sNot(app("isptrtag_", app("i.tag", term)))))
		vc.declareFun("isptrtag_", []string{"Int"}, "Bool")
	}
	return f
}

// ---------------------------------------------------------------- lvalues

// fvReadOnly: the closure only reads the captured variable (possibly passing it on to nested closures that only read it).
func fvReadOnly(fv *ssa.FreeVar) bool {
	if fv.Referrers() == nil {
		return true
	}
	for _, r := range *fv.Referrers() {
		switch r := r.(type) {
		case *ssa.UnOp:
			if r.Op != token.MUL {
				return false
			}
		case *ssa.DebugRef:
		case *ssa.MakeClosure:
			fn := r.Fn.(*ssa.Function)
			for i, b := range r.Bindings {
				if b == fv && !fvReadOnly(fn.FreeVars[i]) {
					return false
				}
			}
		default:
			return false
		}
	}
	return true
}

// escapes: the variable cannot be modelled as a frame-local state variable.  A variable captured only by
// closures that never write it stays local: parent and closures resolve it to the same state variable.
func escapes(a *ssa.Alloc) bool {
	refs := a.Referrers()
	if refs == nil {
		return true
	}
	for _, r := range *refs {
		switch r := r.(type) {
		case *ssa.MakeClosure:
			fn := r.Fn.(*ssa.Function)
			for i, b := range r.Bindings {
				if b == a && !fvReadOnly(fn.FreeVars[i]) {
					return true
				}
			}
		case *ssa.Store:
			if r.Val == a {
				return true
			}
		case *ssa.UnOp:
			if r.Op != token.MUL {
				return true
			}
		case *ssa.DebugRef:
		case *ssa.FieldAddr, *ssa.IndexAddr:
			// handled structurally (aggregates are heap objects anyway)
		case *ssa.Slice:
			// slicing an array variable: backing store is Mem, fine
		default:
			return true
		}
	}
	return false
}

func (vc *VC) addrOf(fr *Frame, n *Node, v ssa.Value) *LVal {
	if lv, ok := fr.lvs[v]; ok {
		return lv
	}
	var lv *LVal
	switch v := v.(type) {
	case *ssa.Alloc:
		// should have been registered by execAlloc
		return nil
	case *ssa.Global:
		t := v.Type().(*types.Pointer).Elem()
		name := "G$" + v.Pkg.Pkg.Name() + "." + v.Name()
		if isAggregate(t) {
			lv = &LVal{kind: lvHeap, ref: vc.globalAddr(v), root: t, typ: t, fresh: true}
		} else {
			vc.svar(name, vc.srt.sortOf(t), t)
			vc.globalsTouched[name] = true
			lv = &LVal{kind: lvGlobal, sv: name, typ: t}
		}
	case *ssa.FieldAddr:
		st := v.X.Type().Underlying().(*types.Pointer).Elem()
		base := vc.addrOf(fr, n, v.X)
		if base == nil || (base.kind != lvHeap && base.kind != lvMem) {
			// X is a pointer value held in a register
			ref := vc.val(fr, v.X)
			base = &LVal{kind: lvHeap, ref: ref, root: st, typ: st}
		}
		lv = vc.fieldOf(base, st, v.Field)
	case *ssa.IndexAddr:
		switch xt := v.X.Type().Underlying().(type) {
		case *types.Slice:
			s := vc.val(fr, v.X)
			lv = &LVal{kind: lvMem, ref: app("s.arr", s), idx: []string{app("+", app("s.off", s), vc.val(fr, v.Index))}, typ: xt.Elem()}
		case *types.Pointer:
			arr := xt.Elem().Underlying().(*types.Array)
			base := vc.addrOf(fr, n, v.X)
			if base == nil {
				ref := vc.val(fr, v.X)
				base = &LVal{kind: lvMem, ref: ref, typ: xt.Elem()}
			}
			c := *base
			c.idx = append(append([]string{}, base.idx...), vc.val(fr, v.Index))
			c.typ = arr.Elem()
			lv = &c
		}
	case *ssa.FreeVar:
		t := v.Type().(*types.Pointer).Elem()
		ref := fr.regs[v]
		if !isAggregate(t) && !isArrayType(t) && fvReadOnly(v) {
			// read-only capture without a binding in this VC (closure verified as a root): its own cell, arbitrary content
			name := fmt.Sprintf("L$%s$fv.%s", fr.prefix, v.Name())
			vc.svar(name, vc.srt.sortOf(t), t)
			lv = &LVal{kind: lvLocal, sv: name, typ: t}
			break
		}
		if isAggregate(t) {
			lv = &LVal{kind: lvHeap, ref: ref, root: t, typ: t}
		} else if _, isArr := t.Underlying().(*types.Array); isArr {
			lv = &LVal{kind: lvMem, ref: ref, typ: t}
		} else {
			lv = &LVal{kind: lvCell, ref: ref, typ: t}
		}
	default:
		// a pointer held in a register
		pt, ok := v.Type().Underlying().(*types.Pointer)
		if !ok {
			return nil
		}
		t := pt.Elem()
		if _, isReg := fr.regs[v]; !isReg {
			if _, isParam := v.(*ssa.Parameter); !isParam {
				return nil
			}
		}
		ref := vc.val(fr, v)
		if isAggregate(t) {
			lv = &LVal{kind: lvHeap, ref: ref, root: t, typ: t}
		} else if _, isArr := t.Underlying().(*types.Array); isArr {
			lv = &LVal{kind: lvMem, ref: ref, typ: t}
		} else {
			lv = &LVal{kind: lvCell, ref: ref, typ: t}
		}
		return lv // not cached: register may be a phi
	}
	if lv != nil {
		fr.lvs[v] = lv
	}
	return lv
}

func (vc *VC) subRef(root types.Type, path []string, ref string) string {
	fn := "sub$" + typeName(root) + "$" + strings.Join(path, ".")
	vc.declareFun(fn, []string{"Int"}, "Int")
	return app(smtName(fn), ref)
}

func (vc *VC) fieldOf(base *LVal, st types.Type, field int) *LVal {
	s := st.Underlying().(*types.Struct)
	f := s.Field(field)
	c := *base
	c.path = append(append([]string{}, base.path...), f.Name())
	c.typ = f.Type()
	if base.kind == lvMem {
		// field of a struct stored in a backing array (slice of structs): keep as Mem element with field path
		return &c
	}
	if len(base.idx) > 0 {
		// field below an array element inside an object: encode the index in the path-less way is unsupported
		c.kind = lvOpaque
		return &c
	}
	// crossing into a named repo struct held by value: re-root
	if isAggregate(f.Type()) {
		if _, named := types.Unalias(f.Type()).(*types.Named); named {
			c.ref = vc.subRef(base.root, c.path, base.ref)
			c.root = f.Type()
			c.path = nil
		}
	}
	return &c
}

func (vc *VC) leafSort(t types.Type) string { return vc.srt.sortOf(t) }

func selectIdx(row string, idx []string) string {
	for _, i := range idx {
		row = app("select", row, i)
	}
	return row
}

func storeIdx(row string, idx []string, val string) string {
	if len(idx) == 0 {
		return val
	}
	return app("store", row, idx[0], storeIdx(app("select", row, idx[0]), idx[1:], val))
}

// load reads the designated location in env.
func (vc *VC) load(env Env, lv *LVal) string {
	t := lv.typ
	switch lv.kind {
	case lvGhost:
		return app("select", vc.cur(env, lv.sv), lv.ref)
	case lvLocal, lvGlobal:
		return selectIdx(vc.cur(env, lv.sv), lv.idx)
	case lvCell:
		m := vc.cellMap(t)
		return selectIdx(app("select", vc.cur(env, m.Name), lv.ref), lv.idx)
	case lvMem:
		if len(lv.path) > 0 {
			// field of struct element
			elemT := lv.root
			if elemT == nil {
				return vc.fresh("opaque", vc.srt.sortOf(t))
			}
		}
		if isAggregate(t) && len(lv.path) == 0 {
			m := vc.memMap(t)
			return selectIdx(app("select", vc.cur(env, m.Name), lv.ref), lv.idx)
		}
		if len(lv.path) > 0 {
			vc.unsupported("field of array element by address")
			return vc.fresh("opaque", vc.srt.sortOf(t))
		}
		if at, ok := t.Underlying().(*types.Array); ok && len(lv.idx) == 0 {
			m := vc.memMap(at.Elem())
			return app("select", vc.cur(env, m.Name), lv.ref)
		}
		m := vc.memMap(t)
		return selectIdx(app("select", vc.cur(env, m.Name), lv.ref), lv.idx)
	case lvHeap:
		if isAggregate(t) && len(lv.idx) == 0 {
			s := t.Underlying().(*types.Struct)
			var fs []string
			for i := 0; i < s.NumFields(); i++ {
				fs = append(fs, vc.load(env, vc.fieldOf(lv, t, i)))
			}
			if len(fs) == 0 {
				fs = append(fs, "0")
			}
			return app(vc.srt.structCtor(t), fs...)
		}
		leafT := vc.leafTypeOf(lv)
		m := vc.heapMap(lv.root, lv.path, leafT)
		return selectIdx(app("select", vc.cur(env, m.Name), lv.ref), lv.idx)
	}
	vc.unsupported("load from unmodelled location")
	return vc.fresh("opaque", vc.srt.sortOf(t))
}

// leafTypeOf: the type stored in the heap map for lv (before array indices are applied).
func (vc *VC) leafTypeOf(lv *LVal) types.Type {
	if len(lv.idx) == 0 {
		return lv.typ
	}
	// walk the root type along path
	t := lv.root
	for _, p := range lv.path {
		s, ok := t.Underlying().(*types.Struct)
		if !ok {
			return lv.typ
		}
		for i := 0; i < s.NumFields(); i++ {
			if s.Field(i).Name() == p {
				t = s.Field(i).Type()
				break
			}
		}
	}
	return t
}

// store writes val to the designated location, bumping the versions in n.env.
func (vc *VC) store(n *Node, lv *LVal, val string) {
	t := lv.typ
	env := n.env
	switch lv.kind {
	case lvGhost:
		old := vc.cur(env, lv.sv)
		nv := vc.bump(env, lv.sv)
		n.assume(sEq(nv, app("store", old, lv.ref, val)))
	case lvLocal, lvGlobal:
		old := vc.cur(env, lv.sv)
		nv := vc.bump(env, lv.sv)
		n.assume(sEq(nv, storeIdx(old, lv.idx, val)))
	case lvCell:
		m := vc.cellMap(t)
		old := vc.cur(env, m.Name)
		nv := vc.bump(env, m.Name)
		n.assume(sEq(nv, app("store", old, lv.ref, storeIdx(app("select", old, lv.ref), lv.idx, val))))
	case lvMem:
		if len(lv.path) > 0 {
			vc.unsupported("store to field of array element by address")
			return
		}
		var m *SVar
		if at, ok := t.Underlying().(*types.Array); ok && len(lv.idx) == 0 {
			m = vc.memMap(at.Elem())
		} else {
			m = vc.memMap(t)
		}
		old := vc.cur(env, m.Name)
		nv := vc.bump(env, m.Name)
		n.assume(sEq(nv, app("store", old, lv.ref, storeIdx(app("select", old, lv.ref), lv.idx, val))))
		if m == vc.byteMemIfDeclared() && len(lv.idx) == 1 {
			// a single byte written: content identities of windows that do not contain it are unchanged
			vc.bsFrame(n, app("select", nv, lv.ref), app("select", old, lv.ref), lv.idx[0], app("+", lv.idx[0], "1"))
		}
	case lvHeap:
		if isAggregate(t) && len(lv.idx) == 0 {
			s := t.Underlying().(*types.Struct)
			for i := 0; i < s.NumFields(); i++ {
				vc.store(n, vc.fieldOf(lv, t, i), app(vc.srt.structAcc(t, s.Field(i).Name()), val))
			}
			return
		}
		leafT := vc.leafTypeOf(lv)
		m := vc.heapMap(lv.root, lv.path, leafT)
		old := vc.cur(env, m.Name)
		nv := vc.bump(env, m.Name)
		n.assume(sEq(nv, app("store", old, lv.ref, storeIdx(app("select", old, lv.ref), lv.idx, val))))
	default:
		vc.unsupported("store to unmodelled location")
	}
}

// zeroObject assumes zero values for every leaf of a freshly allocated aggregate.
func (vc *VC) zeroObject(n *Node, lv *LVal) {
	t := lv.typ
	if isAggregate(t) {
		s := t.Underlying().(*types.Struct)
		for i := 0; i < s.NumFields(); i++ {
			vc.zeroObject(n, vc.fieldOf(lv, t, i))
		}
		return
	}
	if lv.kind == lvOpaque {
		return
	}
	if isLockType(t) {
		// a freshly allocated mutex is unlocked
		n.assume(sEq(vc.lockState(n.env, lv), "0"))
		return
	}
	n.assume(sEq(vc.load(n.env, lv), vc.srt.zeroOf(t)))
}
