package main

// Structural rules: obligations decided by complete enumeration over the SSA program.
//
//   rule[Cxx] writers (*T).f : F1, F2          every write (store or atomic store/swap/cas/add) to field f of a
//                                               pre-existing T happens in one of the listed functions; an item
//                                               "F via M" also fixes the atomic method used in F (CompareAndSwap ...)
//   rule[Cxx] callers F : pkgsuffix-or-func...  every static call of F and every interface call that can dispatch
//                                               to F sits in a listed package (path suffix) or function
//   rule[Cxx] mutators (*T) via I.m1, I.m2      every method of *T from which a call of one of the interface
//                                               methods is reachable (static calls inside the package) carries a
//                                               contract clause tagged Cxx

import (
	"fmt"
	"go/types"
	"sort"
	"strings"

	"golang.org/x/tools/go/ssa"
)

type RuleResult struct {
	Name   string
	OK     bool
	Detail string
	Rule   *Rule
}

func (p *Prog) checkRules(prop string) []RuleResult {
	var out []RuleResult
	for _, r := range p.rules {
		if !hasTag(r.Tags, prop) {
			continue
		}
		f := strings.Fields(r.Text)
		if len(f) < 2 {
			out = append(out, RuleResult{Name: "rule " + r.Text, Detail: "malformed rule", Rule: r})
			continue
		}
		switch f[0] {
		case "writers":
			out = append(out, p.ruleWriters(r)...)
		case "callers":
			out = append(out, p.ruleCallers(r)...)
		case "mutators":
			out = append(out, p.ruleMutators(r, prop)...)
		default:
			out = append(out, RuleResult{Name: "rule " + r.Text, Detail: "unknown rule kind", Rule: r})
		}
	}
	return out
}

func splitRule(text string) (head string, list []string) {
	i := strings.Index(text, ":")
	if i < 0 {
		return text, nil
	}
	for _, x := range strings.Split(text[i+1:], ",") {
		if t := strings.TrimSpace(x); t != "" {
			list = append(list, t)
		}
	}
	return strings.TrimSpace(text[:i]), list
}

func (p *Prog) ruleWriters(r *Rule) []RuleResult {
	head, allowed := splitRule(r.Text)
	tgt := strings.Fields(head)[1]
	i := strings.LastIndex(tgt, ".")
	recv, field := strings.TrimPrefix(strings.Trim(tgt[:i], "()"), "*"), tgt[i+1:]
	pk := p.pkgs[r.Pkg]
	tn := typeNameByPkg(pk.Types, recv)
	isTarget := func(v ssa.Value) bool {
		fa, ok := v.(*ssa.FieldAddr)
		if !ok {
			return false
		}
		root, path, ok := staticPath(fa)
		return ok && len(path) >= 1 && typeName(root) == tn && path[0] == field && !freshBase(fa)
	}
	var out []RuleResult
	n := 0
	for _, fn := range p.allFuncs {
		for _, b := range fn.Blocks {
			for _, in := range b.Instrs {
				write := false
				writeMethod := "store"
				switch in := in.(type) {
				case *ssa.Store:
					write = isTarget(in.Addr)
				case ssa.CallInstruction:
					c := in.Common()
					if sc := c.StaticCallee(); sc != nil && len(c.Args) > 0 && isTarget(c.Args[0]) {
						name := sc.String()
						if o := sc.Origin(); o != nil {
							name = o.String()
						}
						if strings.HasPrefix(name, "(*sync/atomic.") && !strings.HasSuffix(name, ").Load") {
							write = true
							writeMethod = name[strings.LastIndex(name, ".")+1:]
						}
						if strings.HasPrefix(name, "sync/atomic.") && !strings.HasPrefix(name, "sync/atomic.Load") {
							write = true
							writeMethod = strings.TrimPrefix(name, "sync/atomic.")
						}
					}
				}
				if !write {
					continue
				}
				n++
				ok := false
				for _, a := range allowed {
					// "F via M": in F the write must be the atomic read-modify-write M (e.g. CompareAndSwap), the
					// only way to decide a race between two finishers
					via := ""
					if j := strings.Index(a, " via "); j >= 0 {
						a, via = strings.TrimSpace(a[:j]), strings.TrimSpace(a[j+5:])
					}
					if relKey(fn) == a && fnPkgPath(fn) == r.Pkg && (via == "" || via == writeMethod) {
						ok = true
					}
				}
				res := RuleResult{Name: fmt.Sprintf("rule/writers %s.%s/%s", tn, field, shortPkg(fullKey(fn))), OK: ok, Rule: r}
				if !ok {
					res.Detail = fmt.Sprintf("%s writes %s.%s at %s but is not among the declared writers %v", fullKey(fn), tn, field, p.fset.Position(in.Pos()), allowed)
				}
				out = append(out, res)
			}
		}
	}
	if n == 0 {
		out = append(out, RuleResult{Name: fmt.Sprintf("rule/writers %s.%s", tn, field), OK: false, Detail: "no write to the field found: anchor lost", Rule: r})
	}
	return out
}

func (p *Prog) ruleCallers(r *Rule) []RuleResult {
	head, allowed := splitRule(r.Text)
	key := strings.TrimSpace(strings.TrimPrefix(head, "callers"))
	target := p.funcs[r.Pkg+"::"+key]
	if target == nil {
		return []RuleResult{{Name: "rule/callers " + key, Detail: "target function not found: anchor lost", Rule: r}}
	}
	var out []RuleResult
	for _, fn := range p.allFuncs {
		if fn == target {
			continue
		}
		for _, b := range fn.Blocks {
			for _, in := range b.Instrs {
				ci, ok := in.(ssa.CallInstruction)
				if !ok {
					continue
				}
				c := ci.Common()
				hit := false
				if sc := c.StaticCallee(); sc == target {
					hit = true
				} else if c.IsInvoke() {
					for _, t := range p.chaTargets(c) {
						if t == target {
							hit = true
						}
					}
				}
				if !hit {
					continue
				}
				ok2 := false
				for _, a := range allowed {
					if strings.HasSuffix(fnPkgPath(fn), a) || shortPkg(fullKey(fn)) == a || relKey(fn) == a && fnPkgPath(fn) == r.Pkg {
						ok2 = true
					}
				}
				res := RuleResult{Name: fmt.Sprintf("rule/callers %s/%s", key, shortPkg(fullKey(fn))), OK: ok2, Rule: r}
				if !ok2 {
					res.Detail = fmt.Sprintf("%s calls (or may dispatch to) %s at %s but is not among the declared callers %v", fullKey(fn), key, p.fset.Position(in.Pos()), allowed)
				}
				out = append(out, res)
			}
		}
	}
	if len(out) == 0 {
		// no call site at all: holds (an allowed list of `nobody` says so explicitly)
		out = append(out, RuleResult{Name: fmt.Sprintf("rule/callers %s/(no call site)", key), OK: true, Rule: r})
	}
	sort.Slice(out, func(i, j int) bool { return out[i].Name < out[j].Name })
	return dedupRules(out)
}

func dedupRules(rs []RuleResult) []RuleResult {
	var out []RuleResult
	seen := map[string]bool{}
	for _, r := range rs {
		k := r.Name + fmt.Sprint(r.OK)
		if seen[k] {
			continue
		}
		seen[k] = true
		out = append(out, r)
	}
	return out
}

func (p *Prog) ruleMutators(r *Rule, prop string) []RuleResult {
	// mutators (*T) via I.m1, I.m2
	f := strings.Fields(r.Text)
	recv := strings.TrimPrefix(strings.Trim(f[1], "()"), "*")
	via := strings.TrimSpace(r.Text[strings.Index(r.Text, " via ")+5:])
	want := map[string]bool{}
	for _, x := range strings.Split(via, ",") {
		want[strings.TrimSpace(x)] = true
	}
	pk := p.pkgs[r.Pkg]
	o := pk.Types.Scope().Lookup(recv)
	if o == nil {
		return []RuleResult{{Name: "rule/mutators " + recv, Detail: "type not found: anchor lost", Rule: r}}
	}
	// direct: function contains an invoke of a wanted interface method (by interface type name + method)
	direct := map[*ssa.Function]bool{}
	for _, fn := range p.allFuncs {
		for _, b := range fn.Blocks {
			for _, in := range b.Instrs {
				ci, ok := in.(ssa.CallInstruction)
				if !ok {
					continue
				}
				c := ci.Common()
				if !c.IsInvoke() {
					continue
				}
				name := c.Method.Name()
				if nt, ok := types.Unalias(c.Value.Type()).(*types.Named); ok {
					name = nt.Obj().Name() + "." + name
				}
				if want[name] {
					direct[fn] = true
				}
			}
		}
	}
	var reach func(fn *ssa.Function, seen map[*ssa.Function]bool) bool
	reach = func(fn *ssa.Function, seen map[*ssa.Function]bool) bool {
		if direct[fn] {
			return true
		}
		if seen[fn] {
			return false
		}
		seen[fn] = true
		for _, b := range fn.Blocks {
			for _, in := range b.Instrs {
				if mc, ok := in.(*ssa.MakeClosure); ok {
					if reach(mc.Fn.(*ssa.Function), seen) {
						return true
					}
				}
				if ci, ok := in.(ssa.CallInstruction); ok {
					if sc := ci.Common().StaticCallee(); sc != nil && fnPkgPath(sc) == r.Pkg {
						if reach(sc, seen) {
							return true
						}
					}
				}
			}
		}
		return false
	}
	ms := p.prog.MethodSets.MethodSet(types.NewPointer(o.Type()))
	var out []RuleResult
	for i := 0; i < ms.Len(); i++ {
		m := p.prog.MethodValue(ms.At(i))
		if m == nil || fnPkgPath(m) != r.Pkg {
			continue
		}
		if !reach(m, map[*ssa.Function]bool{}) {
			continue
		}
		classified := false
		if fc := p.contracts[m]; fc != nil {
			for _, c := range fc.Clauses {
				if hasTag(c.Tags, prop) {
					classified = true
				}
			}
		}
		res := RuleResult{Name: fmt.Sprintf("rule/mutators %s/%s", recv, relKey(m)), OK: classified, Rule: r}
		if !classified {
			res.Detail = fmt.Sprintf("method %s can reach %s but carries no contract clause for %s (unclassified mutating entry point)", relKey(m), via, prop)
		}
		out = append(out, res)
	}
	if len(out) == 0 {
		out = append(out, RuleResult{Name: "rule/mutators " + recv, Detail: "no mutating method found: anchor lost", Rule: r})
	}
	return out
}
