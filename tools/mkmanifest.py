#!/usr/bin/env python3
"""Regenerates /verif/MANIFEST.json from the per-property table below (kept in one place so that the claim,
its level note and the not_applicable list stay consistent)."""
import json, subprocess
props = [json.loads(l) for l in open('/verif/properties.jsonl')]
TECH = "contract-based deductive verification: weakest-precondition VCs over go/ssa with contracts in comment-only files, discharged by z3/cvc5"
claimed = {
 "C08": ("proof",
   "Every obligation generated from the current tree for the functions that read or write a sequence counter is discharged for all inputs: WAL.Append/AppendBatch/UpdateNextSequence/NewWAL/ReuseWAL postconditions, the scalar invariant SeqInv (lastSeqNum <= lastIssued < wal.nextSequence, largest stamp handed to the memtable pool <= lastIssued) preserved by Manager.Put/Delete/ApplyBatch (closures and retry loop), rotateWAL hands the counter over, recoverFromWAL restores it above the replayed maximum, and every store in the whole program to WAL.nextSequence and Manager.lastSeqNum is non-decreasing (monotone obligations enumerated from SSA). The invariant is preserved by every operation for every argument, hence holds after every program of operations.",
   "Sequential reasoning per function; restart is covered through the NewWAL/ReuseWAL/recoverFromWAL contracts (conditional on recovered numbers below MaxSequenceNumber), not by replaying real log directories; Primary.lastSyncedSeq only through the value syncLocked passes and the monotone counter; library/I/O models assumed (evidence trusted_base).", "7 C08"),
 "C03": ("proof",
   "Discharged for all inputs: the transaction buffer captures key and value at call time (fresh copies with equal content, nil-ness kept, last operation on a key wins, other keys untouched); Commit performs at most one ApplyBatch, exactly one for a non-empty read-write transaction and none for read-only/closed/empty ones, while the exclusive lock is still owned; Rollback clears the buffer and never reaches storage; Put/Delete/Get before commit never call a storage mutator; WAL.AppendBatch consumes one sequence number and leaves the counter unchanged on every error exit; the service's BatchWrite uses one read-write transaction, buffers every operation in request order, commits only after all were validated and rolls back on every error exit.",
   "Mechanism level: that no concurrent reader observes a strict subset rests on the single critical section of Manager.mu (C06) and is not explored; the crash clause (a cut inside a batch replays a strict subset because batch records are not framed) is a format property outside these contracts and is recorded in DESIGN.md as not covered; storage is seen through the call-history contract of StorageBackend.", "7 C03"),
 "C04": ("proof",
   "Mechanism proved for all inputs: BeginTransaction acquires the isolation lock exactly once in the mode of the transaction and returns an active transaction satisfying the representation invariant TxInv (flags say which side of the lock is owned); every TransactionImpl method preserves TxInv; every storage access (Get, ApplyBatch) is preceded by a discharged check that the lock is owned in the required mode; Commit/Rollback release exactly the owned side and only after the last storage access; read-only transactions never reach a storage mutator; a read-only engine only hands out read-only transactions.",
   "The step from strict two-phase locking on one reader-writer lock to serializability (lemma L-2PL) is classical and unchecked; no interleaving is explored; iterator read-your-writes is covered only through C05's merge contract, non-transactional writes are excluded by the property.", "7 C04"),
 "C16": ("proof",
   "Discharged for all inputs: each client mutator of EngineFacade (Put, Delete, ApplyBatch) returns ErrReadOnlyMode and leaves the storage write counter unchanged when the read-only flag is set, and otherwise performs exactly one storage call with the caller's byte strings; BeginTransaction on a read-only engine yields a read-only transaction and TransactionImpl.Put/Delete on such a transaction fail with ErrReadOnlyTransaction leaving the buffer unchanged; reads do not consult the flag. Enumerated over the SSA program on every run: every facade method that can reach a storage mutator is classified, the flag is written only by SetReadOnly, the guard-bypassing *Internal entries are called only from pkg/replication, and the applier never toggles the flag of a real engine.",
   "The service layer relies on delegation to these engine methods (C19); role/address reporting of GetNodeInfo is not under contract; interleaving with replication apply is not explored (the flag is an atomic never written by the apply path).", "7 C16"),
 "C17": ("proof",
   "Discharged for all inputs (sequential): Commit and Rollback take effect at most once (CAS-guarded), release exactly the owned side of the lock, and on a closed transaction return ErrTransactionClosed with lock state, flags and storage counters unchanged; Get/Put/Delete on a closed transaction fail without effect; the release helpers unlock exactly when the flag was set; every call of Registry.Remove in the service happens only after the transaction was committed or rolled back (precondition of the interface contract, checked at every call site including the invalid-key path of TxGet); Scan and BatchWrite roll their transaction back on every error exit.",
   "Not covered (channel/reflect protocols outside the subset): the begin-timeout path of RegistryImpl.Begin, GracefulShutdown, the periodic cleanup goroutine; the cleanup loops of CleanupStaleTransactions/CleanupConnection are not under contract yet; 'eventually released' itself is not proved (no liveness).", "7 C17"),
 "C19": ("proof",
   "Handlers verified for all requests against call-history contracts of the embedded interfaces: Get/Put/Delete reject keys outside [1,4096] and values above 10 MiB before any engine call and otherwise perform exactly one engine call with the request's byte strings; BatchWrite rejects more than 1000 operations before beginning a transaction, uses one read-write transaction, validates every key before Commit; Scan/TxScan emit exactly the non-deleted entries the cursor passed (ghost set `emitted`), at most `limit`, inside a read-only transaction that is rolled back on every exit; Commit/RollbackTransaction remove the handle after finishing; TxGet/TxPut/TxDelete never remove a live handle.",
   "The gRPC transport and protobuf encoding are assumed; the equivalence of results rests on delegation plus C01/C03/C05 for the engine; Get maps every engine error to Found=false and Compact writes a marker key (differences from the embedded API noted in DESIGN.md, not contract violations of the clauses claimed); GetNodeInfo/GetStats not under contract.", "7 C19"),
}
reasons = {
 "C14": "bounded-time convergence of a replica is a liveness/timing property across processes, goroutines and gRPC streams; no pre/postcondition, invariant or lemma over function contracts states or implies it (DESIGN.md section 8)",
}
default_reason = "contracts not yet built in this session (DESIGN.md section 7 describes the plan); claimed once its obligations discharge"
head = subprocess.check_output(['git', '-C', '/repo', 'log', '--format=%H %s']).decode().splitlines()
hook_commits = [l.split()[0] for l in head if l.split(' ', 1)[1].startswith('verif:')]
checks = []
for pid in sorted(claimed):
    cat, text, note, ref = claimed[pid]
    checks.append({"property_id": pid, "quick_cmd": "./check %s quick" % pid, "thorough_cmd": "./check %s thorough" % pid,
                   "evidence_file": "/verif/evidence/%s.json" % pid, "replay_cmd_template": "cat {path}", "engine": "kvc",
                   "level_claimed": {"category": cat, "text": text, "design_ref": "DESIGN.md section " + ref},
                   "level_note": note, "technique": TECH})
m = {"version": 1,
     "setup_cmd": "cd /verif/kvc && GOFLAGS=-mod=vendor GOPROXY=off go build -o ../bin/kvc .",
     "hooks": {"guard": "verif", "enable": "-tags verif (comment-only contract files pkg/**/contracts_verif.go read by kvc; no executable hooks)",
               "baseline_off_cmd": "cd /repo && go test -vet=off -count=1 -timeout 25m ./...", "source_commits": hook_commits, "add_only": True},
     "engines": [{"name": "kvc", "path": "/verif/kvc", "serves_properties": sorted(claimed),
                  "kind_free_text": "VC generator over go/ssa (naive form) with Gobra-style contracts in comment-only files; obligations discharged by z3 4.8.12 / z3 5.1.0 / cvc5 1.0 raced per query; structural rules by enumeration over SSA"}],
     "checks": checks,
     "notes": "Contract-based deductive verification; see DESIGN.md. Genuine defects found by failing obligations were repaired in 'fix:' commits and are listed in known_findings.json; selftest/ holds the must-fail corpus.",
     "not_applicable": [{"property_id": p["id"], "reason": reasons.get(p["id"], default_reason)} for p in props if p["id"] not in claimed]}
json.dump(m, open('/verif/MANIFEST.json', 'w'), indent=1)
print("claimed:", sorted(claimed))
