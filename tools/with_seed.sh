#!/bin/bash
# tools/with_seed.sh <patch.diff> <Cxx> [Cyy ...] : apply a seeded change to /repo, run the quick checks, undo it.
# Evidence and replay files of these runs go to a scratch directory (never into /verif/evidence).
# Refuses to run when /repo has uncommitted changes to tracked files (they would be lost / mixed up).
patch="$1"; shift
if [ -n "$(git -C /repo status --porcelain --untracked-files=no)" ]; then echo "/repo has uncommitted tracked changes: commit them first"; exit 2; fi
scratch=$(mktemp -d /var/tmp/kvc-seedrun-XXXXXX)
cp /verif/known_findings.json /verif/sweep_baseline.json "$scratch"/ 2>/dev/null
cp -r /verif/bounded "$scratch"/ 2>/dev/null
mkdir -p "$scratch/replay" && cp -r /verif/replay/templates "$scratch/replay/" 2>/dev/null
git -C /repo apply "$patch" || { echo "patch does not apply"; rm -rf "$scratch"; exit 2; }
for p in "$@"; do (cd /verif && ./bin/kvc check -property "$p" -tier quick -verif "$scratch" 2>&1 | grep "failed obligation\|failed bounded\|VIOLATION\|KNOWN\|quick:" | cut -c1-220); done
git -C /repo apply -R "$patch"
rm -rf "$scratch"
git -C /repo status --porcelain --untracked-files=no | head -3
