#!/bin/bash
# tools/with_seed.sh <patch.diff> <Cxx> [Cyy ...] : apply a seeded change to /repo, run the quick checks, undo it.
# Refuses to run when /repo has uncommitted changes to tracked files (they would be lost / mixed up).
patch="$1"; shift
if [ -n "$(git -C /repo status --porcelain --untracked-files=no)" ]; then echo "/repo has uncommitted tracked changes: commit them first"; exit 2; fi
git -C /repo apply "$patch" || { echo "patch does not apply"; exit 2; }
for p in "$@"; do (cd /verif && ./check "$p" quick 2>&1 | grep "failed obligation\|VIOLATION\|KNOWN\|quick:" | cut -c1-220); done
git -C /repo apply -R "$patch"
git -C /repo status --porcelain --untracked-files=no | head -3
